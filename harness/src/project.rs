//! Projection functions: real data structures -> tagged JSON arrays (DESIGN.md 4.1).
//! No judgement happens here; sorting is only for stable output.
use crate::user::VU;
use crate::{E, T};
use proto_vulcan::engine::Engine;
use proto_vulcan::lterm::LTerm;
use proto_vulcan::user::User;
use proto_vulcan::compound::CompoundObject;
use proto_vulcan::lresult::LResult;
use proto_vulcan::lterm::LTermInner;
use proto_vulcan::lvalue::LValue;
use proto_vulcan::relation::clpfd::diseqfd::DiseqFdConstraint;
use proto_vulcan::relation::clpfd::distinctfd::{DistinctFd2Constraint, DistinctFdConstraint};
use proto_vulcan::relation::clpfd::ltefd::LessThanOrEqualFdConstraint;
use proto_vulcan::relation::clpfd::minusfd::MinusFdConstraint;
use proto_vulcan::relation::clpfd::plusfd::PlusFdConstraint;
use proto_vulcan::relation::clpfd::timesfd::TimesFdConstraint;
use proto_vulcan::relation::clpz::plusz::PlusZConstraint;
use proto_vulcan::relation::clpz::timesz::TimesZConstraint;
use proto_vulcan::relation::diseq::DisequalityConstraint;
use proto_vulcan::state::constraint::store::ConstraintStore;
use proto_vulcan::state::constraint::Constraint;
use proto_vulcan::state::State;
use serde_json::{json, Value};
use std::cell::RefCell;
use std::collections::HashMap;
use std::rc::Rc;

/// raw VarID -> variable number of the case
#[derive(Clone)]
pub struct Names(Rc<RefCell<HashMap<u64, i64>>>, bool);

impl Names {
    pub fn new() -> Names {
        Names(Rc::new(RefCell::new(HashMap::new())), false)
    }
    /// registry for surface programs: unknown variables are identified by their source name
    pub fn by_source_name() -> Names {
        Names(Rc::new(RefCell::new(HashMap::new())), true)
    }
    pub fn by_name(&self) -> bool {
        self.1
    }
    pub fn register<U: User, X: Engine<U>>(&self, t: &LTerm<U, X>, id: i64) {
        if let Some(raw) = raw_id(t) {
            self.0.borrow_mut().insert(raw, id);
        }
    }
    pub fn get(&self, raw: u64) -> Option<i64> {
        self.0.borrow().get(&raw).copied()
    }
}

pub fn raw_id<U: User, X: Engine<U>>(t: &LTerm<U, X>) -> Option<u64> {
    match t.as_ref() {
        LTermInner::Var(uid, _) => format!("{}", uid).parse::<u64>().ok(),
        _ => None,
    }
}

pub fn value_json(v: &LValue) -> Value {
    match v {
        LValue::Number(n) => json!(["num", n]),
        LValue::Bool(b) => json!(["sym", format!("b:{}", b)]),
        LValue::Char(c) => json!(["sym", format!("c:{}", c)]),
        LValue::String(s) => json!(["sym", format!("s:{}", s)]),
    }
}

fn children_json<U: User, X: Engine<U>>(obj: &dyn CompoundObject<U, X>, names: &Names) -> Vec<Value> {
    obj.children()
        .map(|c| match c.as_term() {
            Some(t) => term_json(t, names),
            None => json!(["cmp", type_name(c), children_json(c, names)]),
        })
        .collect()
}

fn type_name<U: User, X: Engine<U>>(obj: &dyn CompoundObject<U, X>) -> String {
    let n = obj.type_name();
    if n.is_empty() {
        "Tuple".to_string()
    } else {
        n.to_string()
    }
}

pub fn term_json<U: User, X: Engine<U>>(t: &LTerm<U, X>, names: &Names) -> Value {
    match t.as_ref() {
        LTermInner::Val(v) => value_json(v),
        LTermInner::Var(_, name) => {
            let raw = raw_id(t).unwrap();
            match names.get(raw) {
                Some(id) => json!(["var", id]),
                None => {
                    if *name == "_" {
                        json!(["any", raw])
                    } else {
                        // surface programs: a variable the registry does not know is shown by its
                        // source name vN (diagnostics only; such a variable is not reified)
                        match name.strip_prefix('v').and_then(|n| n.parse::<i64>().ok()) {
                            Some(n) if names.by_name() => json!(["var", n]),
                            _ => json!(["uvar", raw]),
                        }
                    }
                }
            }
        }
        LTermInner::User(_) => json!(["user"]),
        LTermInner::Empty => json!(["nil"]),
        LTermInner::Cons(h, tl) => json!(["cons", term_json(h, names), term_json(tl, names)]),
        LTermInner::Projection(p) => json!(["proj", term_json(p, names)]),
        LTermInner::Compound(obj) => match obj.as_term() {
            // a compound object that is itself a term (e.g. the payload of `Some(term)`)
            Some(inner) => json!(["cmp", "Wrap", [term_json(inner, names)]]),
            None => json!(["cmp", type_name(obj.as_ref()), children_json(obj.as_ref(), names)]),
        },
    }
}

fn sorted(mut v: Vec<Value>) -> Vec<Value> {
    v.sort_by_key(|x| x.to_string());
    v
}

pub fn constraint_json<U: User, X: Engine<U>>(c: &Rc<dyn Constraint<U, X>>, names: &Names) -> Value {
    let ops: Vec<Value> = || -> Vec<Value> { c.operands().iter().map(|t| term_json(t, names)).collect() }();
    if let Some(d) = c.downcast_ref::<DisequalityConstraint<U, X>>() {
        let pairs: Vec<Value> = d
            .smap_ref()
            .iter()
            .map(|(k, v)| json!([term_json(k, names), term_json(v, names)]))
            .collect();
        return json!(["neq", sorted(pairs)]);
    }
    let tag = if c.is::<LessThanOrEqualFdConstraint<U, X>>() {
        "ltefd"
    } else if c.is::<PlusFdConstraint<U, X>>() {
        "plusfd"
    } else if c.is::<MinusFdConstraint<U, X>>() {
        "minusfd"
    } else if c.is::<TimesFdConstraint<U, X>>() {
        "timesfd"
    } else if c.is::<DiseqFdConstraint<U, X>>() {
        "neqfd"
    } else if c.is::<DistinctFdConstraint<U, X>>() {
        "distinct"
    } else if c.is::<DistinctFd2Constraint<U, X>>() {
        "distinct2"
    } else if c.is::<PlusZConstraint<U, X>>() {
        "plusz"
    } else if c.is::<TimesZConstraint<U, X>>() {
        "timesz"
    } else {
        "other"
    };
    json!([tag, ops])
}

pub fn cstore_json<U: User, X: Engine<U>>(cs: &ConstraintStore<U, X>, names: &Names) -> Vec<Value> {
    sorted(cs.iter().map(|c| constraint_json(c, names)).collect())
}

pub fn user_json(u: &VU, names: &Names) -> Value {
    let exts: Vec<Value> = u
        .exts
        .iter()
        .map(|e| {
            Value::Array(sorted(
                e.iter()
                    .map(|(k, v)| json!([term_json(k, names), term_json(v, names)]))
                    .collect(),
            ))
        })
        .collect();
    json!({"with": u.with, "take": u.take, "trail": u.trail, "exts": exts})
}

pub fn store_json(state: &State<VU, E>, names: &Names) -> Value {
    // raw triangular bindings (no walking here: a cyclic substitution must be *observed*)
    let smap: Vec<Value> = state
        .smap_ref()
        .iter()
        .map(|(k, v)| json!([term_json(k, names), term_json(v, names)]))
        .collect();
    let ds: Vec<Value> = state
        .dstore_ref()
        .iter()
        .map(|(k, d)| json!([term_json(k, names), d.iter().collect::<Vec<isize>>()]))
        .collect();
    json!({
        "smap": sorted(smap),
        "cs": cstore_json(state.cstore_ref(), names),
        "ds": sorted(ds),
        "u": user_json(&state.user_state, names),
    })
}

pub fn answer_json<U: User, X: Engine<U>>(results: &Vec<LResult<U, X>>, names: &Names) -> Value {
    let q: Vec<Value> = results.iter().map(|r| term_json(&r.0, names)).collect();
    let cs: Vec<Value> = match results.first() {
        Some(r) => cstore_json(r.1.as_ref(), names),
        None => vec![],
    };
    let rel: Vec<Value> = results
        .iter()
        .map(|r| Value::Array(sorted(r.constraints().map(|c| constraint_json(c, names)).collect())))
        .collect();
    let con: Vec<Value> = results.iter().map(|r| json!(r.is_constrained())).collect();
    json!({"q": q, "cs": cs, "rel": rel, "con": con})
}
