//! pvh - conformance harness for proto-vulcan.
//!
//! `pvh run <cases.ndjson> <obs.ndjson>` executes every case on the real library and writes
//! one observation record per event.  The harness only *drives* and *projects*; it holds no
//! oracle (the one exception, C21's hash law, is stated in DESIGN.md).
//!
//! Case and observation formats: DESIGN.md Appendix B.
extern crate proto_vulcan;
extern crate serde_json;

extern crate pvh;

use pvh::build::{self, Builder, Defs};
use pvh::project::{answer_json, store_json, Names};
use pvh::user::VU;
use pvh::{arm, domops, log, termops, ticks, E, G, LOG, T};
use proto_vulcan::lresult::LResult;
use proto_vulcan::query::{Query, QueryResult};
use proto_vulcan::solver::Solver;
use proto_vulcan::state::State;
use serde_json::{json, Value};
use std::cell::RefCell;
use std::io::{BufRead, BufWriter, Write};
use std::panic::{catch_unwind, AssertUnwindSafe};
use std::rc::Rc;

thread_local! {
    static PANIC_INFO: RefCell<Option<(String, String)>> = RefCell::new(None);
}

struct VecResult(Vec<LResult<VU, E>>);
impl QueryResult<VU, E> for VecResult {
    fn from_vec(v: Vec<LResult<VU, E>>) -> Self {
        VecResult(v)
    }
}

/// Runs one `query`/`solver` case; events are appended to LOG; returns the end record.
fn run_program(case: &Value) -> Value {
    let id = case["id"].clone();
    let mode = case["mode"].as_str().unwrap_or("query");
    let take = case["take"].as_u64().unwrap_or(1_000) as usize;
    let after = case["after"].as_u64().unwrap_or(0) as usize;
    let defs: Defs = Rc::new(case["defs"].clone());
    let names = Names::new();
    let mut b = Builder::new(defs, names.clone());
    let qvars: Vec<i64> = case["qvars"]
        .as_array()
        .map(|a| a.iter().map(|v| v.as_i64().unwrap()).collect())
        .unwrap_or_default();
    let qterms: Vec<T> = qvars.iter().map(|i| b.declare(*i, "q")).collect();
    // free (non-query) variables the case declares up front
    if let Some(a) = case["vars"].as_array() {
        for v in a {
            b.declare(v.as_i64().unwrap(), "v");
        }
    }
    let mut n_answers = 0usize;
    let mut after_nones: Vec<bool> = vec![];
    let mut exhausted = false;
    let mut end_tick = 0u64;
    match mode {
        "query" => {
            let body: Vec<G> = case["body"]
                .as_array()
                .unwrap()
                .iter()
                .map(|g| b.goal::<G>(g))
                .collect();
            let goal = b.query_goal(&qterms, body, case["final_probe"].as_bool().unwrap_or(true));
            if case["engine"].as_bool().unwrap_or(false) {
                install_engine_observer(id.clone());
            }
            let q: Query<VecResult, VU, E> = Query::new(qterms.clone(), goal);
            let mut it = q.run_with_user(VU::default(), ());
            loop {
                if n_answers >= take {
                    break;
                }
                match it.next() {
                    Some(r) => {
                        log(json!({"case": id, "k": "answer", "i": n_answers + 1, "tick": ticks(),
                                   "a": answer_json(&r.0, &names)}));
                        n_answers += 1;
                    }
                    None => {
                        exhausted = true;
                        end_tick = ticks();
                        break;
                    }
                }
            }
            if exhausted {
                for _ in 0..after {
                    after_nones.push(it.next().is_none());
                }
            }
        }
        "solver" => {
            let goal: G = b.goal::<G>(&case["goal"]);
            if case["engine"].as_bool().unwrap_or(false) {
                install_engine_observer(id.clone());
            }
            let solver: Solver<VU, E> = Solver::new((), false);
            let mut solver = solver;
            let mut stream = solver.start(&goal, State::new(VU::default()));
            loop {
                if n_answers >= take {
                    break;
                }
                match solver.next(&mut stream) {
                    Some(state) => {
                        log(json!({"case": id, "k": "state", "i": n_answers + 1, "tick": ticks(),
                                   "s": store_json(&state, &names)}));
                        n_answers += 1;
                    }
                    None => {
                        exhausted = true;
                        end_tick = ticks();
                        break;
                    }
                }
            }
            if exhausted {
                for _ in 0..after {
                    after_nones.push(solver.next(&mut stream).is_none());
                }
            }
        }
        other => panic!("harness: unknown mode {}", other),
    }
    json!({"case": id, "k": "end", "kind": if exhausted {"exhausted"} else {"take"},
           "n": n_answers, "after": after_nones, "tick": if exhausted { end_tick } else { ticks() },
           "msg": "", "loc": ""})
}

/// Records the stream skeleton at every iteration of the loop of `Solver::next`.
fn install_engine_observer(id: Value) {
    #[cfg(proto_vulcan_verif)]
    {
        proto_vulcan::verif::set_observer(Some(Box::new(move |_what, any| {
            if let Some(stream) = any.downcast_ref::<proto_vulcan::stream::Stream<VU, E>>() {
                log(json!({"case": id, "k": "engine", "tick": ticks(), "skel": pvh::skel::stream(stream)}));
            }
        })));
    }
    #[cfg(not(proto_vulcan_verif))]
    {
        let _ = id;
    }
}

fn clear_engine_observer() {
    #[cfg(proto_vulcan_verif)]
    proto_vulcan::verif::set_observer(None);
}

fn run_case(case: &Value) -> Vec<Value> {
    LOG.with(|l| l.borrow_mut().clear());
    PANIC_INFO.with(|p| *p.borrow_mut() = None);
    let id = case["id"].clone();
    let kind = case["kind"].as_str().unwrap_or("program").to_string();
    let budget = case["budget"].as_u64().unwrap_or(2_000_000);
    let sched = case["sched"].as_u64().unwrap_or(0);
    arm(budget, sched);
    let res = catch_unwind(AssertUnwindSafe(|| match kind.as_str() {
        "program" => run_program(case),
        "store" => build::run_store(case),
        "domop" => domops::run(case),
        "termop" => termops::run(case),
        other => panic!("harness: unknown kind {}", other),
    }));
    arm(0, 0);
    clear_engine_observer();
    let end = match res {
        Ok(end) => end,
        Err(payload) => {
            let is_budget = pvh::is_budget_payload(&payload);
            let n = LOG.with(|l| {
                l.borrow()
                    .iter()
                    .filter(|r| r["k"] == "answer" || r["k"] == "state")
                    .count()
            });
            if is_budget {
                json!({"case": id, "k": "end", "kind": "budget", "n": n, "after": [], "tick": budget,
                       "msg": "", "loc": ""})
            } else {
                let (msg, loc) = PANIC_INFO
                    .with(|p| p.borrow_mut().take())
                    .unwrap_or_else(|| {
                        let m = payload
                            .downcast_ref::<&str>()
                            .map(|s| s.to_string())
                            .or_else(|| payload.downcast_ref::<String>().cloned())
                            .unwrap_or_else(|| "?".to_string());
                        (m, "?".to_string())
                    });
                let kind = if msg.starts_with("harness:") { "toolerr" } else { "panic" };
                json!({"case": id, "k": "end", "kind": kind, "n": n, "after": [], "tick": ticks(),
                       "msg": msg, "loc": loc})
            }
        }
    };
    let mut out = vec![json!({"case": id, "k": "reset", "c": case})];
    LOG.with(|l| {
        for mut r in l.borrow_mut().drain(..) {
            if r.get("case").is_none() {
                r["case"] = id.clone();
            }
            out.push(r);
        }
    });
    out.push(end);
    out
}

fn main() {
    let args: Vec<String> = std::env::args().collect();
    if args.len() < 4 || args[1] != "run" {
        eprintln!("usage: pvh run <cases.ndjson> <obs.ndjson>");
        std::process::exit(2);
    }
    std::panic::set_hook(Box::new(|info| {
        let msg = info
            .payload()
            .downcast_ref::<&str>()
            .map(|s| s.to_string())
            .or_else(|| info.payload().downcast_ref::<String>().cloned())
            .unwrap_or_else(|| "?".to_string());
        let loc = info
            .location()
            .map(|l| format!("{}:{}", l.file(), l.line()))
            .unwrap_or_else(|| "?".to_string());
        PANIC_INFO.with(|p| *p.borrow_mut() = Some((msg, loc)));
    }));
    let input = std::fs::File::open(&args[2]).expect("open cases");
    let output = std::fs::File::create(&args[3]).expect("create obs");
    let mut w = BufWriter::new(output);
    // Deep recursion (walk_star on long lists, nested streams): run on a big stack.
    let lines: Vec<String> = std::io::BufReader::new(input)
        .lines()
        .map(|l| l.unwrap())
        .filter(|l| !l.trim().is_empty())
        .collect();
    // Watchdog: a case that runs for 30 s of wall-clock time without returning (a healthy case
    // takes milliseconds) ends the process with status 3; the driver then re-runs the cases of this
    // file one by one and records which one does not come back.
    let started = std::sync::Arc::new(std::sync::atomic::AtomicU64::new(0));
    let epoch = std::time::Instant::now();
    {
        let started = started.clone();
        std::thread::spawn(move || loop {
            std::thread::sleep(std::time::Duration::from_millis(500));
            let s = started.load(std::sync::atomic::Ordering::Relaxed);
            if s > 0 && epoch.elapsed().as_millis() as u64 > s + 30_000 {
                eprintln!("watchdog: a case ran for more than 30 s");
                std::process::exit(3);
            }
        });
    }
    let handle = std::thread::Builder::new()
        .stack_size(512 << 20)
        .spawn(move || {
            let mut out: Vec<String> = vec![];
            for line in lines {
                let case: Value = serde_json::from_str(&line).expect("case json");
                started.store(epoch.elapsed().as_millis() as u64 + 1, std::sync::atomic::Ordering::Relaxed);
                for rec in run_case(&case) {
                    out.push(serde_json::to_string(&rec).unwrap());
                }
            }
            out
        })
        .unwrap();
    let out = handle.join().expect("worker thread died");
    for l in out {
        writeln!(w, "{}", l).unwrap();
    }
    w.flush().unwrap();
}
