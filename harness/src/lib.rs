//! pvh library: projection functions, instrumented user type, dynamic builder.  Used by the
//! `pvh` binary (API backend) and by the generated surface crate (/verif/surface).
extern crate proto_vulcan;
extern crate serde_json;

pub mod build;
pub mod domops;
pub mod project;
pub mod termops;
pub mod user;

use proto_vulcan::engine::DefaultEngine;
use proto_vulcan::goal::Goal;
use proto_vulcan::lterm::LTerm;
use serde_json::Value;
use std::cell::RefCell;
use user::VU;

pub type E = DefaultEngine<VU>;
pub type T = LTerm<VU, E>;
pub type G = Goal<VU, E>;

thread_local! {
    /// Observation records of the running case (probes are appended from inside goals).
    pub static LOG: RefCell<Vec<Value>> = RefCell::new(Vec::new());
}

pub fn log(v: Value) {
    LOG.with(|l| l.borrow_mut().push(v));
}

pub fn ticks() -> u64 {
    #[cfg(proto_vulcan_verif)]
    {
        proto_vulcan::verif::ticks()
    }
    #[cfg(not(proto_vulcan_verif))]
    {
        0
    }
}

pub fn arm(budget: u64, sched: u64) {
    #[cfg(proto_vulcan_verif)]
    {
        proto_vulcan::verif::arm_budget(budget);
        proto_vulcan::verif::set_schedule(sched);
    }
    #[cfg(not(proto_vulcan_verif))]
    {
        let _ = (budget, sched);
    }
}

pub fn is_budget_payload(payload: &Box<dyn std::any::Any + Send>) -> bool {
    #[cfg(proto_vulcan_verif)]
    {
        payload.downcast_ref::<proto_vulcan::verif::VerifBudget>().is_some()
    }
    #[cfg(not(proto_vulcan_verif))]
    {
        let _ = payload;
        false
    }
}

/// Engine-level observation: the constructor skeleton of a stream (states shown by their trail,
/// goals omitted).  Installed as observer of `verif::engine_event` by solver-mode cases that ask
/// for it; the judge validates the sequence of skeletons against `Search.tla` step by step.
pub mod skel {
    use crate::user::VU;
    use crate::E;
    use proto_vulcan::state::State;
    use proto_vulcan::stream::{Lazy, LazyStream, Stream};
    use serde_json::{json, Value};

    fn st(s: &State<VU, E>) -> Value {
        json!(s.user_state.trail)
    }

    pub fn lazy(l: &LazyStream<VU, E>) -> Value {
        match &*l.0 {
            Lazy::Bind(a, _) => json!(["bind", lazy(a)]),
            Lazy::MPlus(a, b) => json!(["mplus", lazy(a), lazy(b)]),
            Lazy::Pause(s, _) => json!(["pause", st(s)]),
            Lazy::BindDFS(a, _) => json!(["bindD", lazy(a)]),
            Lazy::MPlusDFS(a, b) => json!(["mplusD", lazy(a), lazy(b)]),
            Lazy::PauseDFS(s, _) => json!(["pauseD", st(s)]),
            Lazy::Delay(s) => json!(["delay", stream(s)]),
            Lazy::Iterator(_) => json!(["iterator"]),
        }
    }

    pub fn stream(s: &Stream<VU, E>) -> Value {
        match s {
            Stream::Empty => json!(["empty"]),
            Stream::Unit(a) => json!(["unit", st(a)]),
            Stream::Lazy(l) => json!(["lazy", lazy(l)]),
            Stream::Cons(a, l) => json!(["cons", st(a), lazy(l)]),
        }
    }
    /// The same skeleton for streams over any user type (states shown with an empty trail): used by the
    /// surface backend, whose programs run with the library's DefaultUser.
    pub fn lazy_plain<U: proto_vulcan::user::User, X: proto_vulcan::engine::Engine<U>>(l: &LazyStream<U, X>) -> Value {
        match &*l.0 {
            Lazy::Bind(a, _) => json!(["bind", lazy_plain(a)]),
            Lazy::MPlus(a, b) => json!(["mplus", lazy_plain(a), lazy_plain(b)]),
            Lazy::Pause(_, _) => json!(["pause", []]),
            Lazy::BindDFS(a, _) => json!(["bindD", lazy_plain(a)]),
            Lazy::MPlusDFS(a, b) => json!(["mplusD", lazy_plain(a), lazy_plain(b)]),
            Lazy::PauseDFS(_, _) => json!(["pauseD", []]),
            Lazy::Delay(s) => json!(["delay", stream_plain(s)]),
            Lazy::Iterator(_) => json!(["iterator"]),
        }
    }

    pub fn stream_plain<U: proto_vulcan::user::User, X: proto_vulcan::engine::Engine<U>>(s: &Stream<U, X>) -> Value {
        match s {
            Stream::Empty => json!(["empty"]),
            Stream::Unit(_) => json!(["unit", []]),
            Stream::Lazy(l) => json!(["lazy", lazy_plain(l)]),
            Stream::Cons(_, l) => json!(["cons", [], lazy_plain(l)]),
        }
    }
}
