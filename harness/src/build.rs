//! Dynamic construction of terms and goals from the JSON case AST through the public
//! constructors of proto-vulcan (the same ones the macros expand to).
use crate::project::{store_json, Names};
use crate::user::VU;
use crate::{log, E, G, T};
use proto_vulcan::compound;
use proto_vulcan::goal::{AnyGoal, DFSGoal, InferredGoal};
use proto_vulcan::lterm::LTerm;
use proto_vulcan::operator::closure::Closure;
use proto_vulcan::operator::conj::{Conj, DFSConj, InferredConj};
use proto_vulcan::operator::disj::{DFSDisj, Disj};
use proto_vulcan::operator::fngoal::FnGoal;
use proto_vulcan::operator::fresh::Fresh;
use proto_vulcan::operator::project::Project;
use proto_vulcan::operator::{ClosureOperatorParam, ForOperatorParam, OperatorParam};
use proto_vulcan::relation;
use proto_vulcan::relation::clpfd::diseqfd::DiseqFdConstraint;
use proto_vulcan::relation::clpfd::distinctfd::DistinctFdConstraint;
use proto_vulcan::relation::clpfd::ltefd::LessThanOrEqualFdConstraint;
use proto_vulcan::relation::clpfd::minusfd::MinusFdConstraint;
use proto_vulcan::relation::clpfd::plusfd::PlusFdConstraint;
use proto_vulcan::relation::clpfd::timesfd::TimesFdConstraint;
use proto_vulcan::relation::clpz::plusz::PlusZConstraint;
use proto_vulcan::relation::clpz::timesz::TimesZConstraint;
use proto_vulcan::state::{FiniteDomain, State};
use proto_vulcan::stream::Stream;
use proto_vulcan::GoalCast;
use serde_json::{json, Value};
use std::collections::HashMap;
use std::rc::Rc;

pub type DG = DFSGoal<VU, E>;
pub type Defs = Rc<Value>;

// The compound family of the harness (C20).
#[compound]
pub struct Pair(LTerm, LTerm);
#[compound]
pub struct Box1(LTerm);
#[compound]
pub struct Node {
    l: LTerm,
    r: LTerm,
}
#[compound]
pub struct Tree(LTerm, LTerm, LTerm);
/// a compound with an OPTIONAL field: Some(..) and None have one and zero children
#[compound]
pub struct Slot(LTerm, Option<LTerm>);

#[derive(Clone)]
pub struct Builder {
    pub env: HashMap<i64, T>,
    pub defs: Defs,
    pub names: Names,
    /// true while building inside a closure unfolding: variables are not registered
    pub dynamic: bool,
}

/// Goal kinds: what differs between BFS and DFS goal construction.
pub trait Kind: AnyGoal<VU, E> {
    fn special(b: &mut Builder, tag: &str, g: &Value) -> Self;
    fn raw_conj(a: Self, b: Self) -> Self;
    fn raw_disj(a: Self, b: Self) -> Self;
}

fn clauses<K: Kind>(b: &mut Builder, v: &Value) -> Vec<Vec<K>> {
    v.as_array()
        .expect("clause list")
        .iter()
        .map(|c| c.as_array().expect("clause").iter().map(|g| b.goal::<K>(g)).collect())
        .collect()
}

fn with_param<K: Kind, R>(cl: &Vec<Vec<K>>, f: impl FnOnce(OperatorParam<VU, E, K>) -> R) -> R {
    let refs: Vec<&[K]> = cl.iter().map(|c| c.as_slice()).collect();
    f(OperatorParam::new(&refs))
}

impl Kind for G {
    fn special(b: &mut Builder, tag: &str, g: &Value) -> G {
        match tag {
            "conde" => {
                let cl = clauses::<G>(b, &g[1]);
                with_param(&cl, |p| proto_vulcan::operator::conde::conde(p))
            }
            "conda" => {
                let cl = clauses::<G>(b, &g[1]);
                with_param(&cl, |p| proto_vulcan::operator::conda(p))
            }
            "condu" => {
                let cl = clauses::<G>(b, &g[1]);
                with_param(&cl, |p| proto_vulcan::operator::condu(p))
            }
            "onceo" => {
                let cl = clauses::<G>(b, &g[1]);
                with_param(&cl, |p| proto_vulcan::operator::onceo(p))
            }
            "loop" => {
                let cl = clauses::<G>(b, &g[1]);
                with_param(&cl, |p| proto_vulcan::operator::anyo(p))
            }
            "disj" => {
                let gs: Vec<G> = g[1].as_array().unwrap().iter().map(|x| b.goal::<G>(x)).collect();
                Disj::from_array(&gs)
            }
            "always" => relation::always(),
            "never" => relation::never(),
            other => panic!("harness: goal {} is not available in a BFS position", other),
        }
    }
    fn raw_conj(a: G, b: G) -> G {
        Conj::new(a, b)
    }
    fn raw_disj(a: G, b: G) -> G {
        Disj::new(a, b)
    }
}

impl Kind for DG {
    fn special(b: &mut Builder, tag: &str, g: &Value) -> DG {
        match tag {
            "disj" => {
                let gs: Vec<DG> = g[1].as_array().unwrap().iter().map(|x| b.goal::<DG>(x)).collect();
                DFSDisj::from_array(&gs)
            }
            other => panic!("harness: goal {} is not available in a DFS position", other),
        }
    }
    fn raw_conj(a: DG, b: DG) -> DG {
        DFSConj::new(a, b)
    }
    fn raw_disj(a: DG, b: DG) -> DG {
        DFSDisj::new(a, b)
    }
}

pub fn domain(v: &Value) -> FiniteDomain {
    match v[0].as_str().unwrap() {
        "itv" => FiniteDomain::from(v[1].as_i64().unwrap() as isize..=v[2].as_i64().unwrap() as isize),
        "vec" => FiniteDomain::from(
            v[1].as_array().unwrap().iter().map(|x| x.as_i64().unwrap() as isize).collect::<Vec<isize>>(),
        ),
        other => panic!("harness: unknown domain form {}", other),
    }
}

impl Builder {
    pub fn new(defs: Defs, names: Names) -> Builder {
        Builder { env: HashMap::new(), defs, names, dynamic: false }
    }

    pub fn declare(&mut self, id: i64, _hint: &str) -> T {
        let v: T = LTerm::var("v");
        if !self.dynamic {
            self.names.register(&v, id);
        }
        self.env.insert(id, v.clone());
        v
    }

    pub fn term(&self, t: &Value) -> T {
        let tag = t[0].as_str().unwrap_or_else(|| panic!("harness: bad term {}", t));
        match tag {
            "num" => LTerm::from(t[1].as_i64().unwrap() as isize),
            "sym" => {
                let s = t[1].as_str().unwrap();
                if let Some(b) = s.strip_prefix("b:") {
                    LTerm::from(b == "true")
                } else if let Some(c) = s.strip_prefix("c:") {
                    LTerm::from(c.chars().next().unwrap())
                } else if let Some(x) = s.strip_prefix("s:") {
                    LTerm::from(x)
                } else {
                    LTerm::from(s)
                }
            }
            "var" => {
                let id = t[1].as_i64().unwrap();
                self.env
                    .get(&id)
                    .unwrap_or_else(|| panic!("harness: unbound variable {}", id))
                    .clone()
            }
            "any" => LTerm::any(),
            "nil" => LTerm::empty_list(),
            "cons" => LTerm::cons(self.term(&t[1]), self.term(&t[2])),
            "list" => {
                let items: Vec<T> = t[1].as_array().unwrap().iter().map(|x| self.term(x)).collect();
                LTerm::from_array(&items)
            }
            "ilist" => {
                let items: Vec<T> = t[1].as_array().unwrap().iter().map(|x| self.term(x)).collect();
                LTerm::improper_from_array(&items)
            }
            "cmp" if t[1] == "Slot" => {
                // Slot(t, Some(u)) is written ["cmp","Slot",[t, ["cmp","Some",[u]]]], Slot(t, None) with ["cmp","None",[]]
                let first = self.term(&t[2][0]);
                let opt = &t[2][1];
                let field: Option<T> = if opt[0] == "cmp" && opt[1] == "Some" {
                    Some(self.term(&opt[2][0]))
                } else if opt[0] == "cmp" && opt[1] == "None" {
                    None
                } else {
                    panic!("harness: the second field of Slot must be Some(..) or None")
                };
                Slot_compound::_InnerSlot(first, field).into()
            }
            "cmp" => {
                let a: Vec<T> = t[2].as_array().unwrap().iter().map(|x| self.term(x)).collect();
                match t[1].as_str().unwrap() {
                    "Pair" => Pair_compound::_InnerPair(a[0].clone(), a[1].clone()).into(),
                    "Box1" => Box1_compound::_InnerBox1(a[0].clone()).into(),
                    "Node" => Node_compound::_InnerNode { l: a[0].clone(), r: a[1].clone() }.into(),
                    "Tree" => Tree_compound::_InnerTree(a[0].clone(), a[1].clone(), a[2].clone()).into(),
                    "Tuple" => (a[0].clone(), a[1].clone()).into(),
                    "Wrap" => Some(a[0].clone()).into(),
                    "Some" | "None" => panic!("harness: Some/None only as the second field of Slot (use Wrap at top level)"),
                    other => panic!("harness: unknown compound type {}", other),
                }
            }
            other => panic!("harness: unknown term tag {}", other),
        }
    }

    fn goals<K: Kind>(&mut self, v: &Value) -> Vec<K> {
        v.as_array().expect("goal list").iter().map(|g| self.goal::<K>(g)).collect()
    }

    pub fn goal<K: Kind>(&mut self, g: &Value) -> K {
        let tag = g[0].as_str().unwrap_or_else(|| panic!("harness: bad goal {}", g));
        match tag {
            "eq" => relation::eq::eq::<VU, E, K>(self.term(&g[1]), self.term(&g[2])).cast_into(),
            "neq" => relation::diseq::diseq::<VU, E, K>(self.term(&g[1]), self.term(&g[2])).cast_into(),
            "succeed" => K::succeed(),
            "fail" => K::fail(),
            "leaf" => {
                let label = g[1].as_str().unwrap().to_string();
                FnGoal::new::<K>(Box::new(move |_solver, mut state| {
                    state.user_state.trail.push(label.clone());
                    Stream::unit(Box::new(state))
                }))
                .cast_into()
            }
            "show" => {
                // non-relational leaf: records what the (unwalked) term looks like right now
                let t = self.term(&g[1]);
                let names = self.names.clone();
                FnGoal::new::<K>(Box::new(move |_solver, mut state| {
                    let mut s = crate::project::term_json(&t, &names).to_string();
                    if s.contains("var") || s.contains("any") || s.contains("proj") {
                        s = "<nonground>".to_string();
                    }
                    state.user_state.trail.push(s);
                    Stream::unit(Box::new(state))
                }))
                .cast_into()
            }
            "isground" => {
                // non-relational leaf: succeeds iff the term as written (no walking) has no variable
                let t = self.term(&g[1]);
                fn ground(t: &T) -> bool {
                    crate::project::term_json(t, &Names::new()).to_string().find("var").is_none()
                        && crate::project::term_json(t, &Names::new()).to_string().find("any").is_none()
                        && crate::project::term_json(t, &Names::new()).to_string().find("proj").is_none()
                }
                FnGoal::new::<K>(Box::new(move |_solver, state| {
                    if ground(&t) {
                        Stream::unit(Box::new(state))
                    } else {
                        Stream::empty()
                    }
                }))
                .cast_into()
            }
            "isnum" => {
                let t = self.term(&g[1]);
                FnGoal::new::<K>(Box::new(move |_solver, state| {
                    if t.is_number() {
                        Stream::unit(Box::new(state))
                    } else {
                        Stream::empty()
                    }
                }))
                .cast_into()
            }
            "probe" => {
                let id = g[1].clone();
                let names = self.names.clone();
                FnGoal::new::<K>(Box::new(move |_solver, state| {
                    log(json!({"k": "probe", "p": id, "s": store_json(&state, &names)}));
                    Stream::unit(Box::new(state))
                }))
                .cast_into()
            }
            "conj" => {
                let gs = self.goals::<K>(&g[1]);
                InferredConj::from_array(&gs).cast_into()
            }
            "twice" => {
                // ONE goal value entered two times in a row (g[2] is the renamed copy the specification uses)
                let a = self.goal::<K>(&g[1]);
                let b = a.clone();
                InferredConj::from_array(&[a, b]).cast_into()
            }
            "rawconj" => {
                let a = self.goal::<K>(&g[1]);
                let b = self.goal::<K>(&g[2]);
                K::raw_conj(a, b)
            }
            "rawdisj" => {
                let a = self.goal::<K>(&g[1]);
                let b = self.goal::<K>(&g[2]);
                K::raw_disj(a, b)
            }
            "cond" => {
                let cl = clauses::<K>(self, &g[1]);
                with_param(&cl, |p| proto_vulcan::operator::cond(p)).cast_into()
            }
            "fresh" => {
                let mut inner = self.clone();
                let vars: Vec<T> = g[1].as_array().unwrap().iter().map(|i| inner.declare(i.as_i64().unwrap(), "f")).collect();
                let body = inner.goals::<K>(&g[2]);
                Fresh::new(vars, GoalCast::cast_into(InferredConj::from_array(&body))).cast_into()
            }
            "dfs" => {
                let cl = clauses::<DG>(self, &g[1]);
                let r: InferredGoal<VU, E, K> = with_param(&cl, |p| proto_vulcan::operator::dfs(p));
                r.cast_into()
            }
            "closure" => {
                let mut inner = self.clone();
                inner.dynamic = true;
                let body = g[1].clone();
                Closure::new(ClosureOperatorParam::new(Box::new(move || {
                    let mut b = inner.clone();
                    let gs = b.goals::<K>(&body);
                    GoalCast::cast_into(InferredConj::from_array(&gs))
                })))
                .cast_into()
            }
            "project" => {
                let mut inner = self.clone();
                let mut pvars: Vec<T> = vec![];
                for i in g[1].as_array().unwrap() {
                    let id = i.as_i64().unwrap();
                    let p = LTerm::projection(inner.env[&id].clone());
                    inner.env.insert(id, p.clone());
                    pvars.push(p);
                }
                let body: Vec<Vec<K>> = g[2].as_array().unwrap().iter().map(|x| vec![inner.goal::<K>(x)]).collect();
                let refs: Vec<&[K]> = body.iter().map(|c| c.as_slice()).collect();
                Project::new(pvars, GoalCast::cast_into(InferredConj::from_conjunctions(&refs))).cast_into()
            }
            "for" => {
                let id = g[1].as_i64().unwrap();
                let coll: Vec<T> = g[2].as_array().unwrap().iter().map(|x| self.term(x)).collect();
                let body = g[3].clone();
                let mut inner = self.clone();
                inner.dynamic = true;
                proto_vulcan::operator::everyg(ForOperatorParam::new(
                    coll,
                    Box::new(move |x: T| {
                        let mut b = inner.clone();
                        b.env.insert(id, x);
                        let cl = clauses::<K>(&mut b, &body);
                        let refs: Vec<&[K]> = cl.iter().map(|c| c.as_slice()).collect();
                        GoalCast::cast_into(InferredConj::from_conjunctions(&refs))
                    }),
                ))
                .cast_into()
            }
            "call" => self.call::<K>(g[1].as_str().unwrap(), &g[2]),
            "dom" => {
                let x = self.term(&g[1]);
                match g[2][0].as_str().unwrap() {
                    "itv" => {
                        let r = g[2][1].as_i64().unwrap() as isize..=g[2][2].as_i64().unwrap() as isize;
                        relation::infdrange::<VU, E, K>(x, &r).cast_into()
                    }
                    _ => {
                        let v: Vec<isize> = g[2][1].as_array().unwrap().iter().map(|x| x.as_i64().unwrap() as isize).collect();
                        relation::infd::<VU, E, K>(x, &v).cast_into()
                    }
                }
            }
            "ltefd" => relation::ltefd::<VU, E, K>(self.term(&g[1]), self.term(&g[2])).cast_into(),
            "ltfd" => relation::ltfd::<VU, E, K>(self.term(&g[1]), self.term(&g[2])).cast_into(),
            "neqfd" => relation::diseqfd::<VU, E, K>(self.term(&g[1]), self.term(&g[2])).cast_into(),
            "plusfd" => relation::plusfd::<VU, E, K>(self.term(&g[1]), self.term(&g[2]), self.term(&g[3])).cast_into(),
            "minusfd" => relation::minusfd::<VU, E, K>(self.term(&g[1]), self.term(&g[2]), self.term(&g[3])).cast_into(),
            "timesfd" => relation::timesfd::<VU, E, K>(self.term(&g[1]), self.term(&g[2]), self.term(&g[3])).cast_into(),
            "distinctfd" => relation::distinctfd::<VU, E, K>(self.term(&g[1])).cast_into(),
            "plusz" => relation::plusz::<VU, E, K>(self.term(&g[1]), self.term(&g[2]), self.term(&g[3])).cast_into(),
            "timesz" => relation::timesz::<VU, E, K>(self.term(&g[1]), self.term(&g[2]), self.term(&g[3])).cast_into(),
            other => K::special(self, other, g),
        }
    }

    fn call<K: Kind>(&mut self, name: &str, args: &Value) -> K {
        let a: Vec<T> = args.as_array().unwrap().iter().map(|x| self.term(x)).collect();
        match name {
            "member" => relation::member::<VU, E, K>(a[0].clone(), a[1].clone()).cast_into(),
            "member1" => relation::member1::<VU, E, K>(a[0].clone(), a[1].clone()).cast_into(),
            "append" => relation::append::<VU, E, K>(a[0].clone(), a[1].clone(), a[2].clone()).cast_into(),
            "rember" => relation::rember::<VU, E, K>(a[0].clone(), a[1].clone(), a[2].clone()).cast_into(),
            "permute" => relation::permute::<VU, E, K>(a[0].clone(), a[1].clone()).cast_into(),
            "distinct" => relation::distinct::<VU, E, K>(a[0].clone()).cast_into(),
            "cons" => relation::cons::<VU, E, K>(a[0].clone(), a[1].clone(), a[2].clone()).cast_into(),
            "first" => relation::first::<VU, E, K>(a[0].clone(), a[1].clone()).cast_into(),
            "rest" => relation::rest::<VU, E, K>(a[0].clone(), a[1].clone()).cast_into(),
            "empty" => relation::empty::<VU, E, K>(a[0].clone()).cast_into(),
            user => {
                // relation defined by the case: {"params":[ids], "body":[goals]} - like
                // `proto_vulcan_closure!`, the body is built when the goal is solved.
                let def = self.defs.get(user).unwrap_or_else(|| panic!("harness: unknown relation {}", user)).clone();
                let mut inner = Builder::new(self.defs.clone(), self.names.clone());
                inner.dynamic = true;
                for (p, t) in def["params"].as_array().unwrap().iter().zip(a.iter()) {
                    inner.env.insert(p.as_i64().unwrap(), t.clone());
                }
                let body = def["body"].clone();
                Closure::new(ClosureOperatorParam::new(Box::new(move || {
                    let mut b = inner.clone();
                    let gs = b.goals::<K>(&body);
                    GoalCast::cast_into(InferredConj::from_array(&gs))
                })))
                .cast_into()
            }
        }
    }

    /// The goal `proto_vulcan_query!` builds (plus an optional probe as very last goal).
    pub fn query_goal(&mut self, qterms: &Vec<T>, body: Vec<G>, final_probe: bool) -> G {
        let q: T = LTerm::var("__query__");
        self.names.register(&q, 0);
        let mut parts: Vec<G> = vec![proto_vulcan::state::reified(
            Conj::from_array(&[
                relation::eq::eq::<VU, E, G>(q.clone(), LTerm::from_array(qterms)).cast_into(),
                Conj::from_array(&body),
            ]),
            q.clone(),
        )];
        if final_probe {
            let names = self.names.clone();
            parts.push(
                FnGoal::new::<G>(Box::new(move |_solver, state| {
                    log(json!({"k": "final", "s": store_json(&state, &names)}));
                    Stream::unit(Box::new(state))
                }))
                .cast_into(),
            );
        }
        Fresh::new(vec![q.clone()], GoalCast::cast_into(InferredConj::from_array(&parts))).cast_into()
    }
}

/// `store` cases: operations applied directly to one `State`.
pub fn run_store(case: &Value) -> Value {
    let id = case["id"].clone();
    let names = Names::new();
    let mut b = Builder::new(Rc::new(Value::Null), names.clone());
    for v in case["vars"].as_array().unwrap() {
        b.declare(v.as_i64().unwrap(), "v");
    }
    let mut state: State<VU, E> = State::new(VU::default());
    let mut n = 0;
    for op in case["ops"].as_array().unwrap() {
        n += 1;
        let tag = op[0].as_str().unwrap();
        let before = state.clone();
        let r = match tag {
            "unify" | "eq" => state.unify(&b.term(&op[1]), &b.term(&op[2])),
            "disunify" | "neq" => state.disunify(&b.term(&op[1]), &b.term(&op[2])),
            "dom" => {
                let t = b.term(&op[1]);
                if t.is_list() {
                    let mut r = Ok(state);
                    for e in t.iter() {
                        r = r.and_then(|s| {
                            let x = s.smap_ref().walk(e).clone();
                            s.process_domain(&x, Rc::new(domain(&op[2])))
                        });
                    }
                    r
                } else {
                    let x = state.smap_ref().walk(&t).clone();
                    state.process_domain(&x, Rc::new(domain(&op[2])))
                }
            }
            "ltefd" => LessThanOrEqualFdConstraint::new(b.term(&op[1]), b.term(&op[2])).run(state),
            "neqfd" => DiseqFdConstraint::new(b.term(&op[1]), b.term(&op[2])).run(state),
            // ltfd(u, v) = [diseqfd(u, v), ltefd(u, v)]
            "ltfd" => DiseqFdConstraint::new(b.term(&op[1]), b.term(&op[2]))
                .run(state)
                .and_then(|s| LessThanOrEqualFdConstraint::new(b.term(&op[1]), b.term(&op[2])).run(s)),
            "plusfd" => PlusFdConstraint::new(b.term(&op[1]), b.term(&op[2]), b.term(&op[3])).run(state),
            "minusfd" => MinusFdConstraint::new(b.term(&op[1]), b.term(&op[2]), b.term(&op[3])).run(state),
            "timesfd" => TimesFdConstraint::new(b.term(&op[1]), b.term(&op[2]), b.term(&op[3])).run(state),
            "distinctfd" => DistinctFdConstraint::new(b.term(&op[1])).run(state),
            "plusz" => PlusZConstraint::new(b.term(&op[1]), b.term(&op[2]), b.term(&op[3])).run(state),
            "timesz" => TimesZConstraint::new(b.term(&op[1]), b.term(&op[2]), b.term(&op[3])).run(state),
            other => panic!("harness: unknown store op {}", other),
        };
        match r {
            Ok(s) => {
                state = s;
                log(json!({"case": id, "k": "store_op", "i": n, "op": op, "ok": true, "s": store_json(&state, &names)}));
            }
            Err(()) => {
                state = before;
                log(json!({"case": id, "k": "store_op", "i": n, "op": op, "ok": false, "s": store_json(&state, &names)}));
            }
        }
    }
    json!({"case": id, "k": "end", "kind": "exhausted", "n": n, "after": [], "tick": 0, "msg": "", "loc": ""})
}
