//! Instrumented user state: counts the constraint-lifecycle hooks, records every extension
//! handed to `process_extension`, and carries the trail of leaf labels of its branch.
use proto_vulcan::engine::Engine;
use proto_vulcan::lterm::LTerm;
use proto_vulcan::state::constraint::Constraint;
use proto_vulcan::state::{SMap, SResult, State};
use proto_vulcan::user::User;
use std::rc::Rc;

#[derive(Clone, Debug, Default)]
pub struct VU {
    pub with: u64,
    pub take: u64,
    /// every extension seen by `process_extension`, as (key, value) pairs
    pub exts: Vec<Vec<(LTerm<VU, crate::E>, LTerm<VU, crate::E>)>>,
    pub trail: Vec<String>,
}

impl User for VU {
    type UserTerm = ();
    type UserContext = ();

    fn process_extension<E: Engine<Self>>(
        mut state: State<Self, E>,
        extension: &SMap<Self, E>,
    ) -> SResult<Self, E> {
        // E is always crate::E in this harness; go through `Any` to keep the signature generic.
        let mut pairs: Vec<(LTerm<VU, crate::E>, LTerm<VU, crate::E>)> = vec![];
        let any: &dyn std::any::Any = extension;
        if let Some(ext) = any.downcast_ref::<SMap<VU, crate::E>>() {
            for (k, v) in ext.iter() {
                pairs.push((k.clone(), v.clone()));
            }
        }
        state.user_state.exts.push(pairs);
        Ok(state)
    }

    fn with_constraint<E: Engine<Self>>(
        state: &mut State<Self, E>,
        _constraint: &Rc<dyn Constraint<Self, E>>,
    ) {
        state.user_state.with += 1;
    }

    fn take_constraint<E: Engine<Self>>(
        state: &mut State<Self, E>,
        _constraint: &Rc<dyn Constraint<Self, E>>,
    ) {
        state.user_state.take += 1;
    }
}
