//! `termop` cases: LTerm container operations (C21). Filled in by milestone 4.
use serde_json::{json, Value};
pub fn run(case: &Value) -> Value {
    json!({"case": case["id"], "k": "end", "kind": "exhausted", "n": 0, "after": [], "tick": 0, "msg": "", "loc": ""})
}
