//! `termop` cases: one operation of the public `LTerm` container API per case (C21).
//!
//! Case: {"kind":"termop","op":name,"t":term,"u":term?,"xs":[term..]?,"i":n?,"vars":[ids]}.
//! The harness only projects results; the single assertion it makes itself is the hash law
//! (equal terms hash equally), because TLA+ has no notion of a hash value.
use crate::build::Builder;
use crate::project::{term_json, Names};
use crate::{log, T};
use proto_vulcan::lterm::LTerm;
use serde_json::{json, Value};
use std::collections::hash_map::DefaultHasher;
use std::collections::HashMap;
use std::hash::{Hash, Hasher};
use std::rc::Rc;

fn hash_of(t: &T) -> u64 {
    let mut h = DefaultHasher::new();
    t.hash(&mut h);
    h.finish()
}

pub fn run(case: &Value) -> Value {
    let id = case["id"].clone();
    let names = Names::new();
    let mut b = Builder::new(Rc::new(Value::Null), names.clone());
    if let Some(vs) = case["vars"].as_array() {
        for v in vs {
            b.declare(v.as_i64().unwrap(), "v");
        }
    }
    let t = b.term(&case["t"]);
    let op = case["op"].as_str().unwrap();
    let xs: Vec<T> = case["xs"].as_array().map(|a| a.iter().map(|x| b.term(x)).collect()).unwrap_or_default();
    let i = case["i"].as_u64().unwrap_or(0) as usize;
    let tj = |x: &T| term_json(x, &names);
    let res: Value = match op {
        "eq" => {
            let u = b.term(&case["u"]);
            let e1 = t == u;
            let e2 = u == t;
            // hash law, checked here: equal terms hash equally and find each other in a HashMap
            let mut m: HashMap<T, u8> = HashMap::new();
            m.insert(t.clone(), 1);
            let hash_ok = !e1 || (hash_of(&t) == hash_of(&u) && m.contains_key(&u));
            json!(["eq", e1, e2, hash_ok, t == t])
        }
        "from_vec" => json!(["term", tj(&LTerm::from_vec(xs))]),
        "from_array" => json!(["term", tj(&LTerm::from_array(&xs))]),
        "improper_from_vec" => json!(["term", tj(&LTerm::improper_from_vec(xs))]),
        "improper_from_array" => json!(["term", tj(&LTerm::improper_from_array(&xs))]),
        "collect" => json!(["term", tj(&xs.into_iter().collect::<T>())]),
        "extend" => {
            let mut t2 = t.clone();
            t2.extend(xs);
            json!(["term", tj(&t2)])
        }
        "iter" => json!(["seq", t.iter().map(|x| tj(x)).collect::<Vec<Value>>()]),
        "into_iter_ref" => json!(["seq", (&t).into_iter().map(|x| tj(x)).collect::<Vec<Value>>()]),
        "iter_mut_set" => {
            // assign xs[0] to every element through iter_mut
            let mut t2 = t.clone();
            for e in t2.iter_mut() {
                *e = xs[0].clone();
            }
            json!(["term", tj(&t2)])
        }
        "index" => json!(["term", tj(&t[i])]),
        "index_mut_set" => {
            let mut t2 = t.clone();
            t2[i] = xs[0].clone();
            json!(["term", tj(&t2)])
        }
        "head" => match t.head() {
            Some(h) => json!(["some", tj(h)]),
            None => json!(["none"]),
        },
        "tail" => match t.tail() {
            Some(h) => json!(["some", tj(h)]),
            None => json!(["none"]),
        },
        "is_list" => json!(["bool", t.is_list()]),
        "is_empty" => json!(["bool", t.is_empty()]),
        "is_improper" => json!(["bool", t.is_improper()]),
        "is_non_empty_list" => json!(["bool", t.is_non_empty_list()]),
        "contains" => json!(["bool", t.contains(&xs[0])]),
        "display" => json!(["str", format!("{}", t)]),
        other => panic!("harness: unknown termop {}", other),
    };
    log(json!({"case": id, "k": "termop", "res": res}));
    json!({"case": id, "k": "end", "kind": "exhausted", "n": 1, "after": [], "tick": 0, "msg": "", "loc": ""})
}
