//! `domop` cases: one FiniteDomain operation per case (C18).
//!
//! Case: {"kind":"domop","op":name,"a":dom,"b":dom?,"arg":n?,"emb":"id"|"ext"}; dom is
//! ["itv",lo,hi] or ["vec",[n..]] over the model window -3..3.  Under the "ext" embedding the
//! window is mapped monotonically onto isize with the end points at isize::MIN / isize::MAX;
//! results are mapped back, values outside the image are reported as 99.
use crate::log;
use proto_vulcan::state::FiniteDomain;
use serde_json::{json, Value};

fn emb(ext: bool, n: i64) -> isize {
    if !ext {
        return n as isize;
    }
    match n {
        -4 => isize::MIN, // only used as a threshold below the window
        -3 => isize::MIN,
        -2 => isize::MIN + 1,
        3 => isize::MAX,
        2 => isize::MAX - 1,
        4 => isize::MAX,
        k => k as isize,
    }
}

fn unemb(ext: bool, v: isize) -> Value {
    if !ext {
        return json!(v);
    }
    if v == isize::MIN {
        json!(-3)
    } else if v == isize::MIN + 1 {
        json!(-2)
    } else if v == isize::MAX {
        json!(3)
    } else if v == isize::MAX - 1 {
        json!(2)
    } else if (-1..=1).contains(&v) {
        json!(v)
    } else {
        json!(99)
    }
}

fn dom(ext: bool, v: &Value) -> FiniteDomain {
    match v[0].as_str().unwrap() {
        "itv" => FiniteDomain::from(emb(ext, v[1].as_i64().unwrap())..=emb(ext, v[2].as_i64().unwrap())),
        _ => FiniteDomain::from(
            v[1].as_array().unwrap().iter().map(|x| emb(ext, x.as_i64().unwrap())).collect::<Vec<isize>>(),
        ),
    }
}

/// A domain as the code represents it, mapped back to window coordinates.
fn dom_json(ext: bool, d: &FiniteDomain) -> Value {
    match d {
        FiniteDomain::Interval(r) => json!(["itv", unemb(ext, *r.start()), unemb(ext, *r.end())]),
        FiniteDomain::Sparse(v) => json!(["vec", v.iter().map(|x| unemb(ext, *x)).collect::<Vec<Value>>()]),
    }
}

fn opt_dom(ext: bool, d: Option<FiniteDomain>) -> Value {
    match d {
        Some(d) => json!(["some", dom_json(ext, &d)]),
        None => json!(["none"]),
    }
}

pub fn run(case: &Value) -> Value {
    let id = case["id"].clone();
    let ext = case["emb"].as_str() == Some("ext");
    let a = dom(ext, &case["a"]);
    let op = case["op"].as_str().unwrap();
    let arg = case["arg"].as_i64().unwrap_or(0);
    let t = emb(ext, arg);
    let res: Value = match op {
        "intersect" => opt_dom(ext, a.intersect(&dom(ext, &case["b"]))),
        "diff" => opt_dom(ext, a.diff(&dom(ext, &case["b"]))),
        "is_disjoint" => json!(["bool", a.is_disjoint(&dom(ext, &case["b"]))]),
        "eq" => json!(["bool", a == dom(ext, &case["b"])]),
        "contains" => json!(["bool", a.contains(t)]),
        "min" => json!(["int", unemb(ext, a.min())]),
        "max" => json!(["int", unemb(ext, a.max())]),
        "is_singleton" => json!(["bool", a.is_singleton()]),
        "singleton_value" => match a.singleton_value() {
            Some(v) => json!(["some", ["int", unemb(ext, v)]]),
            None => json!(["none"]),
        },
        // the threshold predicates used by the propagators: `t < *u` and `t <= *u`
        "copy_before_gt" => opt_dom(ext, a.copy_before(|u| t < *u)),
        "copy_before_ge" => opt_dom(ext, a.copy_before(|u| t <= *u)),
        "drop_before_gt" => opt_dom(ext, a.drop_before(|u| t < *u)),
        "drop_before_ge" => opt_dom(ext, a.drop_before(|u| t <= *u)),
        "iter" => json!(["seq", a.iter().map(|x| unemb(ext, x)).collect::<Vec<Value>>()]),
        "iter_rev" => json!(["seq", a.iter().rev().map(|x| unemb(ext, x)).collect::<Vec<Value>>()]),
        "into_iter" => json!(["seq", a.clone().into_iter().map(|x| unemb(ext, x)).collect::<Vec<Value>>()]),
        other => panic!("harness: unknown domop {}", other),
    };
    log(json!({"case": id, "k": "domop", "res": res}));
    json!({"case": id, "k": "end", "kind": "exhausted", "n": 1, "after": [], "tick": 0, "msg": "", "loc": ""})
}
