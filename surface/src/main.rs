//! pvs - surface backend: runs programs that were printed as proto-vulcan surface syntax
//! (src/generated.rs, written by tools/surface.py) and records the same observation records
//! as the API backend (pvh).  `pvs <obs.ndjson>`
extern crate proto_vulcan;
extern crate pvh;
extern crate serde_json;

use serde_json::{json, Value};
use std::cell::RefCell;
use std::io::Write;
use std::panic::{catch_unwind, AssertUnwindSafe};

thread_local! {
    static PANIC_INFO: RefCell<Option<(String, String)>> = RefCell::new(None);
    static ENGINE_LOG: RefCell<Vec<(u64, String)>> = RefCell::new(Vec::new());
}

/// What one generated case function returns.
pub struct Outcome {
    pub answers: Vec<Value>,
    pub exhausted: bool,
    pub after: Vec<bool>,
    pub end_tick: u64,
}

/// Runs a query built by `proto_vulcan_query!`; `$($v),*` are the query variables in
/// declaration order (fields of the generated result struct).
#[macro_export]
macro_rules! run_query {
    ($query:expr, [$($v:ident),*], $take:expr, $after:expr) => {{
        let names = pvh::project::Names::by_source_name();
        let mut it = $query.run();
        let mut answers: Vec<serde_json::Value> = vec![];
        let mut exhausted = false;
        let mut end_tick = 0u64;
        loop {
            if answers.len() >= $take {
                break;
            }
            match it.next() {
                Some(r) => {
                    let v: Vec<proto_vulcan::lresult::LResult<_, _>> = vec![$(proto_vulcan::lresult::LResult(r.$v.0.clone(), std::rc::Rc::clone(&r.$v.1))),*];
                    answers.push(serde_json::json!({"tick": pvh::ticks(), "a": pvh::project::answer_json(&v, &names)}));
                }
                None => {
                    exhausted = true;
                    end_tick = pvh::ticks();
                    break;
                }
            }
        }
        let mut after: Vec<bool> = vec![];
        if exhausted {
            for _ in 0..$after {
                after.push(it.next().is_none());
            }
        }
        crate::Outcome { answers, exhausted, after, end_tick }
    }};
}

mod generated;

pub struct CaseFn {
    pub case_json: &'static str,
    pub run: fn(usize, usize) -> Outcome,
}

fn main() {
    let args: Vec<String> = std::env::args().collect();
    let out_path = args.get(1).expect("usage: pvs <obs.ndjson>");
    std::panic::set_hook(Box::new(|info| {
        let msg = info
            .payload()
            .downcast_ref::<&str>()
            .map(|s| s.to_string())
            .or_else(|| info.payload().downcast_ref::<String>().cloned())
            .unwrap_or_else(|| "?".to_string());
        let loc = info.location().map(|l| format!("{}:{}", l.file(), l.line())).unwrap_or_else(|| "?".to_string());
        PANIC_INFO.with(|p| *p.borrow_mut() = Some((msg, loc)));
    }));
    let handle = std::thread::Builder::new()
        .stack_size(512 << 20)
        .spawn(move || {
            let mut lines: Vec<String> = vec![];
            for cf in generated::cases() {
                let case: Value = serde_json::from_str(cf.case_json).expect("case json");
                let id = case["id"].clone();
                let take = case["take"].as_u64().unwrap_or(1000) as usize;
                let after = case["after"].as_u64().unwrap_or(0) as usize;
                let budget = case["budget"].as_u64().unwrap_or(2_000_000);
                PANIC_INFO.with(|p| *p.borrow_mut() = None);
                ENGINE_LOG.with(|l| l.borrow_mut().clear());
                if case["engine"].as_bool().unwrap_or(false) {
                    // engine-level trace validation: the stream skeleton at every iteration of Solver::next
                    let id2 = id.clone();
                    proto_vulcan::verif::set_observer(Some(Box::new(move |_what, any| {
                        type S = proto_vulcan::stream::Stream<
                            proto_vulcan::user::DefaultUser,
                            proto_vulcan::engine::DefaultEngine<proto_vulcan::user::DefaultUser>,
                        >;
                        if let Some(stream) = any.downcast_ref::<S>() {
                            let rec = json!({"case": id2, "k": "engine", "tick": pvh::ticks(),
                                             "skel": pvh::skel::stream_plain(stream)});
                            ENGINE_LOG.with(|l| l.borrow_mut().push((pvh::ticks(), rec.to_string())));
                        }
                    })));
                }
                pvh::arm(budget, 0);
                let res = catch_unwind(AssertUnwindSafe(|| (cf.run)(take, after)));
                pvh::arm(0, 0);
                proto_vulcan::verif::set_observer(None);
                lines.push(json!({"case": id, "k": "reset", "c": case}).to_string());
                // engine records first (the judge steps the specification's stream through them), the
                // answers keep their ticks
                ENGINE_LOG.with(|l| {
                    for (_, r) in l.borrow_mut().drain(..) {
                        lines.push(r);
                    }
                });
                match res {
                    Ok(o) => {
                        let n = o.answers.len();
                        for (i, a) in o.answers.into_iter().enumerate() {
                            lines.push(json!({"case": id, "k": "answer", "i": i + 1, "tick": a["tick"], "a": a["a"]}).to_string());
                        }
                        lines.push(json!({"case": id, "k": "end", "kind": if o.exhausted {"exhausted"} else {"take"},
                            "n": n, "after": o.after, "tick": o.end_tick, "msg": "", "loc": ""}).to_string());
                    }
                    Err(payload) => {
                        if pvh::is_budget_payload(&payload) {
                            lines.push(json!({"case": id, "k": "end", "kind": "budget", "n": 0, "after": [], "tick": budget,
                                "msg": "", "loc": ""}).to_string());
                        } else {
                            let (msg, loc) = PANIC_INFO.with(|p| p.borrow_mut().take()).unwrap_or(("?".into(), "?".into()));
                            lines.push(json!({"case": id, "k": "end", "kind": "panic", "n": 0, "after": [], "tick": 0,
                                "msg": msg, "loc": loc}).to_string());
                        }
                    }
                }
            }
            lines
        })
        .unwrap();
    let lines = handle.join().expect("worker died");
    let mut f = std::io::BufWriter::new(std::fs::File::create(out_path).expect("create obs"));
    for l in lines {
        writeln!(f, "{}", l).unwrap();
    }
    f.flush().unwrap();
}
