------------------------------ MODULE MC_Search ------------------------------
(* Scopes for SearchMC: goal trees over trail leaves. *)
EXTENDS SearchMC

A == <<"leaf", "a">>
B == <<"leaf", "b">>
C == <<"leaf", "c">>
L0 == {A, B, <<"fail">>, <<"succeed">>}

Conj2(S1, S2) == {<<"conj", <<x, y>> >> : x \in S1, y \in S2}
Conde2(S1, S2) == {<<"conde", << <<x>>, <<y>> >> >> : x \in S1, y \in S2}
Cond2(S1, S2) == {<<"cond", << <<x>>, <<y>> >> >> : x \in S1, y \in S2}
Fresh1(S1) == {<<"fresh", <<>>, <<x>> >> : x \in S1}
Conde3(S1, S2, S3) == {<<"conde", << <<x>>, <<y>>, <<z>> >> >> : x \in S1, y \in S2, z \in S3}

(* BFS trees *)
B1 == L0 \cup Conj2(L0, L0) \cup Conde2(L0, L0) \cup Fresh1(L0)
B2 == B1 \cup Conj2(B1, B1) \cup Conde2(B1, B1) \cup Fresh1(B1)
     \cup {<<"conde", << <<x, y>>, <<z>> >> >> : x \in {A, B}, y \in {A, C}, z \in B1}
     \cup {<<"rawdisj", x, y>> : x \in B1, y \in L0} \cup {<<"rawconj", x, y>> : x \in L0, y \in B1}
     \cup {<<"disj", <<x, y, z>> >> : x \in {A, <<"fail">>}, y \in B1, z \in {C}}
     \cup Conde3(L0, L0, L0) \cup Conde3({A}, B1, {B, <<"succeed">>})
BfsSmall == B1 \cup Conj2(B1, L0) \cup Conde2(L0, B1) \cup Conde2(B1, L0) \cup Conde3(L0, L0, L0)
            \cup Conj2(L0, Conde3({A, <<"succeed">>}, L0, {B, <<"succeed">>}))

(* DFS trees: the same shapes with cond, wrapped in dfs { } *)
D1 == L0 \cup Conj2(L0, L0) \cup Cond2(L0, L0) \cup Fresh1(L0)
D2 == D1 \cup Conj2(D1, D1) \cup Cond2(D1, D1) \cup Fresh1(D1)
     \cup {<<"rawdisj", x, y>> : x \in D1, y \in L0} \cup {<<"rawconj", x, y>> : x \in L0, y \in D1}
DfsOf(S) == {<<"dfs", << <<g>> >> >> : g \in S}
DfsSmall == DfsOf(D1 \cup Conj2(D1, L0) \cup Cond2(L0, D1))
DfsFull == DfsOf(D2)
(* dfs { } embedded in a BFS parent *)
Mixed == {<<"conde", << <<x>>, <<y>> >> >> : x \in DfsOf(D1), y \in {A, C}}
         \cup {<<"conj", <<x, y>> >> : x \in {A, <<"conde", << <<A>>, <<B>> >> >>}, y \in DfsOf(D1)}

(* committed choice (C08): heads with 0 / 1 / several answers, immediate or behind lazy steps *)
Heads == {A, <<"fail">>, <<"conde", << <<A>>, <<B>> >> >>, <<"fresh", <<>>, <<A>> >>,
          <<"conj", <<A, B>> >>, <<"conde", << << <<"fail">> >>, <<B>> >> >>,
          <<"conde", << <<A>>, <<B>>, <<C>> >> >>, <<"fresh", <<>>, << <<"fail">> >> >>,
          <<"conde", << << <<"fresh", <<>>, <<A>> >> >>, <<B>> >> >>}
Rests == {<<>>, <<C>>, << <<"conde", << <<B>>, <<C>> >> >> >>, << <<"fail">> >>}
Commit1(op) == {<<op, << <<h>> \o r >> >> : h \in Heads, r \in Rests}
Commit2(op) == {<<op, << <<h1>> \o r1, <<h2>> \o r2 >> >> : h1 \in Heads, r1 \in Rests, h2 \in {A, <<"fail">>, <<"conde", << <<A>>, <<C>> >> >>}, r2 \in {<<>>, <<B>>}}
(* nested committed choice: an inner conda/condu as the only goal of a clause of an outer one (the outer
   condu must still cut the inner goal down to its first answer) *)
InnerC == {<<op, << <<h>> \o r >> >> : op \in {"conda", "condu"},
             h \in {A, <<"conde", << <<A>>, <<B>> >> >>}, r \in {<<>>, << <<"conde", << <<B>>, <<C>> >> >> >>}}
NestedCommit == {<<op, << <<h0>>, <<x>> >> >> : op \in {"conda", "condu"}, h0 \in {<<"fail">>, <<"fresh", <<>>, << <<"fail">> >> >>}, x \in InnerC}
                \cup {<<op, << <<x>> >> >> : op \in {"conda", "condu"}, x \in InnerC}
                \cup {<<"onceo", << <<x>> >> >> : x \in InnerC}
                \cup {<<op, << <<x, C>>, <<B>> >> >> : op \in {"conda", "condu"}, x \in InnerC}
CommitScope == NestedCommit \cup Commit1("conda") \cup Commit1("condu") \cup Commit2("conda") \cup Commit2("condu")
               \cup {<<"onceo", << <<h>> >> >> : h \in Heads}
               \cup {<<"conde", << <<x>>, <<B>> >> >> : x \in Commit1("condu")}
               \cup {<<"conj", << <<"conde", << <<A>>, <<B>> >> >>, x>> >> : x \in Commit1("conda")}

(* Query pipeline (state::reified, reify, force_ans): whole queries over two query variables; the
   answers differ widely in reification cost (atoms, lists, nested lists, finite domains) *)
Q1 == <<"var", 1>>
Q2 == <<"var", 2>>
H3 == <<"var", 3>>
N(n) == <<"num", n>>
QAtoms == { <<"eq", Q1, N(1)>>, <<"eq", Q1, <<"list", <<N(1), N(2)>> >> >>, <<"eq", Q2, <<"list", <<Q1, <<"list", <<N(3)>> >> >> >> >>,
            <<"eq", Q2, N(2)>>, <<"leaf", "a">>, <<"dom", Q1, <<"vec", <<1, 2>> >> >>, <<"dom", Q2, <<"itv", 1, 3>> >>,
            <<"neq", Q1, Q2>>, <<"fail">> }
QCl == {<<x>> : x \in QAtoms} \cup {<<x, y>> : x \in {<<"dom", Q1, <<"vec", <<1, 2>> >> >>, <<"leaf", "a">>}, y \in QAtoms}
QueryOf(S) == {<<"query", <<1, 2>>, b>> : b \in S}
QDfs == QueryOf({ << <<"dfs", << << <<"cond", <<c1, c2>> >> >> >> >> >> : c1 \in QCl, c2 \in QCl })
        \cup QueryOf({ << <<"dfs", << << <<"cond", << <<x>>, <<y>>, <<z>> >> >> >> >> >> >> :
                          x \in QAtoms, y \in {<<"eq", Q1, N(1)>>, <<"dom", Q2, <<"itv", 1, 3>> >>}, z \in QAtoms })
QCl1 == {<<x>> : x \in QAtoms}
QClS == {<<x>> : x \in { <<"eq", Q1, N(1)>>, <<"eq", Q1, <<"list", <<N(1), N(2)>> >> >>,
                         <<"eq", Q2, <<"list", <<Q1, <<"list", <<N(3)>> >> >> >> >>, <<"dom", Q1, <<"vec", <<1, 2>> >> >>, <<"fail">> }}
QDfsSmall == QueryOf({ << <<"dfs", << << <<"cond", <<c1, c2>> >> >> >> >> >> : c1 \in QClS, c2 \in QClS })
             \cup QueryOf({ << <<"dfs", << << <<"cond", <<c1, c2>> >> >> >> >> >> :
                               c1 \in {<< <<"dom", Q1, <<"vec", <<1, 2>> >> >>, <<"dom", Q2, <<"itv", 1, 3>> >> >>}, c2 \in QClS })
QBfsSmall == QueryOf({ << <<"conde", <<c1, c2>> >> >> : c1 \in QClS, c2 \in QClS })
             \cup QueryOf({ << <<"fresh", <<3>>, << <<"dom", H3, <<"itv", 1, 2>> >>, <<"conde", <<c1, c2>> >> >> >> >> :
                          c1 \in QClS, c2 \in {<< <<"eq", H3, Q1>> >>} })
QBfs == QueryOf({ << <<"conde", <<c1, c2>> >> >> : c1 \in QCl, c2 \in QCl })
        \cup QueryOf({ << <<"conde", <<c1, c2>> >>, z >> : c1 \in QCl, c2 \in {<<x>> : x \in QAtoms},
                          z \in {<<"neq", Q1, N(1)>>, <<"dom", Q1, <<"itv", 0, 1>> >>} })
        (* a domain variable that is not part of the answer (labelled once by the second part of
           enforce_constraints_fd) *)
        \cup QueryOf({ << <<"fresh", <<3>>, << <<"dom", H3, <<"itv", 1, 2>> >>, <<"conde", <<c1, c2>> >> >> >> >> :
                          c1 \in {<<x>> : x \in QAtoms}, c2 \in {<< <<"eq", H3, Q1>> >>, << <<"ltefd", Q1, H3>>, <<"dom", Q1, <<"itv", 0, 3>> >> >>} })
=============================================================================
