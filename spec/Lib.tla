-------------------------------- MODULE Lib --------------------------------
(***************************************************************************)
(* Sequence-level meaning of the library list relations                    *)
(* (src/relation/{member,member1,append,rember,permute,distinct,cons,      *)
(* first,rest,empty}.rs) - C24.                                            *)
(*                                                                         *)
(* LibHolds(name, args) says whether GROUND arguments are in the relation, *)
(* LibMult(name, args) how many answers the documentation promises for     *)
(* them ("member yields one answer per matching position", every other     *)
(* relation at most one; for permute only membership is specified:         *)
(* LibMultFree).  Arguments are ground terms; lists are proper lists.      *)
(*                                                                         *)
(* GroundCount(answers, tuple) counts the answers (reified terms with      *)
(* disequalities) that have a given ground tuple as an instance.           *)
(***************************************************************************)
EXTENDS Ref

IsList(t) == IsProper(t)
Seq2(t) == Elems(t)   \* element sequence of a proper list

RemFirst(s, x) ==
  IF \E i \in 1..Len(s) : s[i] = x
  THEN LET i == CHOOSE j \in 1..Len(s) : s[j] = x /\ \A k \in 1..(j - 1) : s[k] # x
       IN SubSeq(s, 1, i - 1) \o SubSeq(s, i + 1, Len(s))
  ELSE s

CountOf(s, x) == Cardinality({i \in 1..Len(s) : s[i] = x})
IsPermutation(a, b) == Len(a) = Len(b) /\ \A i \in 1..Len(a) : CountOf(a, a[i]) = CountOf(b, a[i])

LibHolds(name, a) ==
  CASE name = "member"  -> IsList(a[2]) /\ \E i \in 1..Len(Seq2(a[2])) : Seq2(a[2])[i] = a[1]
    [] name = "member1" -> IsList(a[2]) /\ \E i \in 1..Len(Seq2(a[2])) : Seq2(a[2])[i] = a[1]
    [] name = "append"  -> IsList(a[1]) /\ IsList(a[2]) /\ IsList(a[3]) /\ Seq2(a[3]) = Seq2(a[1]) \o Seq2(a[2])
    [] name = "rember"  -> IsList(a[2]) /\ IsList(a[3]) /\ Seq2(a[3]) = RemFirst(Seq2(a[2]), a[1])
    [] name = "permute" -> IsList(a[1]) /\ IsList(a[2]) /\ IsPermutation(Seq2(a[1]), Seq2(a[2]))
    [] name = "distinct" -> IsList(a[1]) /\ \A i, j \in 1..Len(Seq2(a[1])) : i # j => Seq2(a[1])[i] # Seq2(a[1])[j]
    [] name = "cons"    -> a[3] = TCons(a[1], a[2])
    [] name = "first"   -> a[1][1] = "cons" /\ a[1][2] = a[2]
    [] name = "rest"    -> a[1][1] = "cons" /\ a[1][3] = a[2]
    [] name = "empty"   -> a[1] = Nil

(* the relations are documented on lists: tuples whose list positions do not hold proper lists
   are outside the documented relation and are not judged *)
WellTyped(name, a) ==
  CASE name \in {"member", "member1"} -> IsList(a[2])
    [] name = "append"  -> IsList(a[1]) /\ IsList(a[2]) /\ IsList(a[3])
    [] name = "rember"  -> IsList(a[2]) /\ IsList(a[3])
    [] name = "permute" -> IsList(a[1]) /\ IsList(a[2])
    [] name = "distinct" -> IsList(a[1])
    [] name = "cons"    -> IsList(a[2]) /\ IsList(a[3])
    [] name \in {"first", "rest"} -> IsList(a[1])
    [] name = "empty"   -> TRUE

LibMult(name, a) ==
  IF ~LibHolds(name, a) THEN 0
  ELSE IF name = "member" THEN CountOf(Seq2(a[2]), a[1]) ELSE 1
LibMultFree(name) == name = "permute"   \* multiplicity not specified: only membership is judged

(* does the reified answer `ans` (q: tuple of terms over any-variables, cs: disequalities)
   have the ground tuple `tup` as an instance *)
HasInstance(ans, tup) ==
  LET r == UnifyRec(ListOf(ans.q), ListOf(tup), UInit(EmptyMap)) IN
  /\ r.ok
  /\ \A c \in ans.cs : NeqUnder(c, r.s)[1] # "false"

GroundCount(answers, tup) == Cardinality({i \in 1..Len(answers) : HasInstance(answers[i], tup)})

(* The verdict for one case: the query variables are qs, the relation is called with `args`
   (terms over qs); Vals = the ground valuations to test.  Returns the set of reasons. *)
LibReasons(name, args, qs, answers, complete, Vals) ==
  LET ArgsAt(val) == [i \in 1..Len(args) |-> Inst(Norm(args[i]), val)]
      TupAt(val) == [i \in 1..Len(qs) |-> val[qs[i]]]
      bad(val) ==
        LET n == GroundCount(answers, TupAt(val))
            m == LibMult(name, ArgsAt(val))
        IN IF ~WellTyped(name, ArgsAt(val)) THEN ""
           ELSE IF m = 0 THEN (IF n > 0 THEN "lib_wrong_answer" ELSE "")
           ELSE IF LibMultFree(name) THEN (IF complete /\ n = 0 THEN "lib_missing_answer" ELSE "")
           ELSE IF n > m THEN "lib_duplicate_answer"
           ELSE IF complete /\ n < m THEN "lib_missing_answer"
           ELSE ""
  IN {bad(val) : val \in Vals} \ {""}

(* the test universe: atoms 1, 2 and a fresh atom, and lists of them up to length 3 *)
LibE == {Num(1), Num(2)}
LibUA == LibE \cup {<<"sym", "s:f">>}
LibUL == {Nil} \cup {TCons(a, Nil) : a \in LibUA} \cup {TCons(a, TCons(b, Nil)) : a \in LibUA, b \in LibUA}
         \cup {TCons(Num(1), TCons(a, TCons(b, Nil))) : a \in LibE, b \in LibE}
LibUniv == LibUA \cup LibUL
LibValsFor(args) ==
  LET used == UNION {VarsOf(Norm(args[i])) : i \in 1..Len(args)} IN [used -> LibUniv]

=============================================================================
