-------------------------------- MODULE FDom --------------------------------
(***************************************************************************)
(* The finite-domain algebra (src/state/fd.rs).                            *)
(*                                                                         *)
(* A domain is abstractly a non-empty finite set of integers; concretely   *)
(* <<"itv", lo, hi>> or <<"vec", <<v1, ...>>>> as built by the public      *)
(* constructors (From<RangeInclusive>, From<Vec<isize>> of an arbitrary -  *)
(* unsorted, possibly duplicated - vector).  DAbs maps a concrete domain to *)
(* its set.  The specification of every operation is its set meaning.      *)
(***************************************************************************)
EXTENDS Integers, Sequences, FiniteSets, TLC

DAbs(d) == IF d[1] = "itv" THEN d[2]..d[3] ELSE {d[2][i] : i \in 1..Len(d[2])}

DMin(A) == CHOOSE m \in A : \A e \in A : m <= e
DMax(A) == CHOOSE m \in A : \A e \in A : e <= m

(* ascending enumeration of a finite set of integers *)
RECURSIVE AscSeq(_)
AscSeq(A) == IF A = {} THEN <<>> ELSE <<DMin(A)>> \o AscSeq(A \ {DMin(A)})
RECURSIVE DRev(_)
DRev(s) == IF Len(s) = 0 THEN <<>> ELSE DRev(Tail(s)) \o <<Head(s)>>

(* the expected result of an operation, in the result encoding of the harness:
   <<"set", S>> for an Option<FiniteDomain> (S = {} means None), <<"bool", b>>, <<"int", n>>,
   <<"optint", {n}>> / <<"optint", {}>>, <<"seq", s>> *)
DomExpected(op, A, B, t) ==
  CASE op = "intersect"   -> <<"set", A \cap B>>
    [] op = "diff"        -> <<"set", A \ B>>
    [] op = "is_disjoint" -> <<"bool", A \cap B = {}>>
    [] op = "eq"          -> <<"bool", A = B>>
    [] op = "contains"    -> <<"bool", t \in A>>
    [] op = "min"         -> <<"int", DMin(A)>>
    [] op = "max"         -> <<"int", DMax(A)>>
    [] op = "is_singleton" -> <<"bool", Cardinality(A) = 1>>
    [] op = "singleton_value" -> <<"optint", IF Cardinality(A) = 1 THEN A ELSE {}>>
    (* copy_before(p): the elements below the first element satisfying p;
       drop_before(p): the elements from the first element satisfying p *)
    [] op = "copy_before_gt" -> <<"set", {x \in A : ~(\E y \in A : y <= x /\ t < y)}>>
    [] op = "copy_before_ge" -> <<"set", {x \in A : ~(\E y \in A : y <= x /\ t <= y)}>>
    [] op = "drop_before_gt" -> <<"set", {x \in A : \E y \in A : y <= x /\ t < y}>>
    [] op = "drop_before_ge" -> <<"set", {x \in A : \E y \in A : y <= x /\ t <= y}>>
    [] op \in {"iter", "into_iter"} -> <<"seq", AscSeq(A)>>
    [] op = "iter_rev"    -> <<"seq", DRev(AscSeq(A))>>

(* does the recorded result `res` (JSON) agree with the expectation *)
DomAgrees(exp, res) ==
  CASE exp[1] = "set" ->
         IF exp[2] = {} THEN res[1] = "none"
         ELSE res[1] = "some"
              /\ (IF res[2][1] = "itv" THEN res[2][2]..res[2][3] = exp[2]
                  ELSE {res[2][2][i] : i \in 1..Len(res[2][2])} = exp[2])
    [] exp[1] = "bool" -> res[1] = "bool" /\ res[2] = exp[2]
    [] exp[1] = "int" -> res[1] = "int" /\ res[2] = exp[2]
    [] exp[1] = "optint" ->
         IF exp[2] = {} THEN res[1] = "none"
         ELSE res[1] = "some" /\ res[2][1] = "int" /\ {res[2][2]} = exp[2]
    [] exp[1] = "seq" -> res[1] = "seq" /\ res[2] = exp[2]

=============================================================================
