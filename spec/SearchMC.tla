------------------------------ MODULE SearchMC ------------------------------
(***************************************************************************)
(* Flow A machine for the search engine: one behaviour per goal tree of    *)
(* Scope; each step is one iteration of the loop of Solver::next.          *)
(* Invariants: C05 (DfsOrder), C06 (BfsComplete, NoInvention), C08         *)
(* (committed choice against the reference semantics), C09 (Fused),        *)
(* C10/C11/C12 through the reference semantics Eval of Kanren.tla.         *)
(***************************************************************************)
EXTENDS Ref, Json

CONSTANTS Scope,     \* set of goal ASTs
          Dfs,       \* TRUE: the answers must come in reference (depth-first) order
          Fuel,      \* bound on loop iterations (divergence guard)
          Emit, Tag, Slots

VARIABLES ast, stream, out, ticks, phase, slot,
          ref    \* reference semantics of the case (computed once when the case is picked)
vars == <<ast, stream, out, ticks, phase, slot, ref>>

NoDefs == [x \in {} |-> x]

Slice(set, i) == LET seq == SetToSeq(set) IN {seq[j] : j \in {m \in 1..Len(seq) : m % Slots = i}}

(* For a whole query the answers of the body are reified one after the other, and the labelled
   answers of ONE body answer form a block whose inner order is the labelling's own (labelling is an
   ordinary interleaving search, outside every dfs block).  For other goals every answer is its
   own block. *)
BlocksOf(g) ==
  IF g[1] = "query"
  THEN LET qs == [i \in 1..Len(g[2]) |-> V(g[2][i])]
           r == EvalSeq(<< <<"eq", V(0), ListOf(qs)>> >> \o ElabGs(g[3]), InitK(0), 50, NoDefs)
           bl == [i \in 1..Len(r.out) |-> LET e == EnforceFd(V(0), r.out[i]) IN [j \in 1..Len(e) |-> Vis(e[j])]]
       IN SelectSeq(bl, LAMBDA b : Len(b) > 0)
  ELSE LET r == Eval(g, InitK(0), 50, NoDefs) IN [i \in 1..Len(r.out) |-> <<Vis(r.out[i])>>]

Init == /\ slot \in 0..(Slots - 1)
        /\ ast = <<"none">> /\ stream = Empty /\ out = <<>> /\ ticks = 0 /\ phase = "pick"
        /\ ref = [out |-> <<>>, cut |-> FALSE, blocks |-> <<>>]

Pick == /\ phase = "pick"
        /\ \E g \in Slice(Scope, slot) :
              LET r == Solve(Build("b", g), InitK(0), Fuel, NoDefs) IN
              /\ ast' = g /\ stream' = r.s /\ ticks' = r.t
              /\ phase' = IF r.cut THEN "cut" ELSE "run"
              /\ ref' = Eval(g, InitK(0), 50, NoDefs) @@ [blocks |-> BlocksOf(g)]
        /\ out' = <<>> /\ slot' = slot

(* one iteration of the loop of Solver::next *)
NextStep ==
  /\ phase = "run" /\ ast' = ast /\ slot' = slot /\ ref' = ref
  /\ CASE stream[1] = "empty" -> phase' = "exhausted" /\ ticks' = ticks + 1 /\ UNCHANGED <<stream, out>>
       [] stream[1] = "unit"  -> stream' = Empty /\ out' = Append(out, stream[2]) /\ ticks' = ticks + 1 /\ phase' = phase
       [] stream[1] = "cons"  -> stream' = Lazy(stream[3]) /\ out' = Append(out, stream[2]) /\ ticks' = ticks + 1 /\ phase' = phase
       [] stream[1] = "lazy"  ->
            LET r == Step(stream[2], Fuel, NoDefs) IN
            /\ stream' = r.s /\ ticks' = ticks + 1 + r.t /\ out' = out
            /\ phase' = IF r.cut \/ ticks > Fuel THEN "cut" ELSE "run"

Next == Pick \/ NextStep
Spec == Init /\ [][Next]_vars

-----------------------------------------------------------------------------
Ref == ref

CountIn(seq, x) == Cardinality({i \in 1..Len(seq) : seq[i] = x})
SubBagSeq(a, b) == \A i \in 1..Len(a) : CountIn(a, a[i]) <= CountIn(b, a[i])
SameBagSeq(a, b) == Len(a) = Len(b) /\ SubBagSeq(a, b)
IsPrefix2(a, b) == Len(a) <= Len(b) /\ \A i \in 1..Len(a) : a[i] = b[i]

OutV == [i \in 1..Len(out) |-> Vis(out[i])]
RefV == [i \in 1..Len(Ref.out) |-> Vis(Ref.out[i])]

(* Denotation of a SUSPENDED computation (the refinement mapping of the engine onto "the answers
   still owed"): engine goals are read back as goal ASTs and given their reference meaning. *)
RECURSIVE AstOf(_)
CommitClauses(g) ==
  LET RECURSIVE Go(_)
      Go(x) == IF x[1] \in {"conda", "condu"} THEN << <<AstOf(x[2]), AstOf(x[3])>> >> \o Go(x[4]) ELSE <<>>
  IN Go(g)
AstOf(g) ==
  CASE g[1] \in {"succeed", "fail"} -> g
    [] g[1] = "atom" -> g[2]
    [] g[1] \in {"conj", "dconj"} -> <<"rawconj", AstOf(g[2]), AstOf(g[3])>>
    [] g[1] \in {"disj", "ddisj"} -> <<"rawdisj", AstOf(g[2]), AstOf(g[3])>>
    [] g[1] \in {"conde", "dconde"} -> <<"conde", [i \in 1..Len(g[2]) |-> <<AstOf(g[2][i])>>]>>
    [] g[1] \in {"fresh", "dfresh"} -> <<"fresh", <<>>, <<AstOf(g[2])>> >>
    [] g[1] = "closure" -> <<"closure", g[3]>>
    [] g[1] = "call" -> <<"call", g[3], g[4]>>
    [] g[1] = "anyo" -> <<"loop", << <<AstOf(g[2])>> >> >>
    [] g[1] \in {"conda", "condu"} ->
         (* a chain that ends in a goal other than fail cannot be written as a clause list; the
            constructors only build chains that end in fail *)
         <<g[1], CommitClauses(g)>>
    [] g[1] = "project" -> <<"project", g[3], g[4]>>
    [] g[1] = "everyg" -> <<"for", g[3], g[4], g[5]>>
    [] g[1] = "reified" -> <<"rawconj", AstOf(g[2]), <<"reifyast", g[3]>> >>
    [] g[1] = "reifyD" -> <<"reifyast", g[2]>>
    [] g[1] \in {"forceans", "fdtail"} -> g

RECURSIVE OwedL(_)
RECURSIVE OwedS(_)
RECURSIVE OwedFrom(_, _)
OwedFrom(a, Ss) == IF Len(Ss) = 0 THEN <<>> ELSE Eval(a, Head(Ss), 50, NoDefs).out \o OwedFrom(a, Tail(Ss))
OwedL(l) ==
  CASE l[1] \in {"bind", "bindD"} -> OwedFrom(AstOf(l[3]), OwedL(l[2]))
    [] l[1] \in {"mplus", "mplusD"} -> OwedL(l[2]) \o OwedL(l[3])
    [] l[1] \in {"pause", "pauseD"} -> Eval(AstOf(l[3]), l[2], 50, NoDefs).out
    [] l[1] = "delay" -> OwedS(l[2])
OwedS(s) ==
  CASE s[1] = "empty" -> <<>>
    [] s[1] = "unit" -> <<s[2]>>
    [] s[1] = "lazy" -> OwedL(s[2])
    [] s[1] = "cons" -> <<s[2]>> \o OwedL(s[3])

(* C06/C10: every engine step preserves the multiset "emitted so far + still owed" *)
StepPreservesBag ==
  (phase \in {"run", "exhausted"} /\ ~Ref.cut) =>
     LET owed == OwedS(stream) IN
     SameBagSeq(OutV \o [i \in 1..Len(owed) |-> Vis(owed[i])], RefV)

(* C06: nothing is invented at any time; C05: in DFS the emitted sequence is a prefix of the
   reference sequence at any time *)
NoInvention == phase \in {"run", "exhausted"} /\ ~Ref.cut => SubBagSeq(OutV, RefV)
BlockPrefix(outv, blocks) ==
  LET RECURSIVE Go(_, _)
      Go(i, pos) ==
        IF pos > Len(outv) THEN TRUE
        ELSE IF i > Len(blocks) THEN FALSE
        ELSE LET n == Len(blocks[i])
                 hi == IF pos + n - 1 < Len(outv) THEN pos + n - 1 ELSE Len(outv)
             IN SubBagSeq(SubSeq(outv, pos, hi), blocks[i]) /\ Go(i + 1, pos + n)
  IN Go(1, 1)
DfsPrefix == (Dfs /\ phase \in {"run", "exhausted"} /\ ~Ref.cut) => BlockPrefix(OutV, Ref.blocks)
(* C06: at exhaustion nothing has been lost *)
Complete == (phase = "exhausted" /\ ~Ref.cut) => SameBagSeq(OutV, RefV)
(* finite goal trees terminate within the fuel *)
Terminates == phase = "cut" => Ref.cut

EmitCase ==
  (Emit /\ phase \in {"exhausted", "cut"}) =>
     PrintT("CASE " \o ToJson([tag |-> Tag, goal |-> ast, n |-> Len(out), ticks |-> ticks, phase |-> phase]))

=============================================================================
