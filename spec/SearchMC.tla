------------------------------ MODULE SearchMC ------------------------------
(***************************************************************************)
(* Flow A machine for the search engine: one behaviour per goal tree of    *)
(* Scope; each step is one iteration of the loop of Solver::next.          *)
(* Invariants: C05 (DfsOrder), C06 (BfsComplete, NoInvention), C08         *)
(* (committed choice against the reference semantics), C09 (Fused),        *)
(* C10/C11/C12 through the reference semantics Eval of Kanren.tla.         *)
(***************************************************************************)
EXTENDS Ref, Json

CONSTANTS Scope,     \* set of goal ASTs
          Dfs,       \* TRUE: the answers must come in reference (depth-first) order
          Fuel,      \* bound on loop iterations (divergence guard)
          Emit, Tag, Slots

VARIABLES ast, stream, out, ticks, phase, slot,
          ref    \* reference semantics of the case (computed once when the case is picked)
vars == <<ast, stream, out, ticks, phase, slot, ref>>

NoDefs == [x \in {} |-> x]

Slice(set, i) == LET seq == SetToSeq(set) IN {seq[j] : j \in {m \in 1..Len(seq) : m % Slots = i}}

Init == /\ slot \in 0..(Slots - 1)
        /\ ast = <<"none">> /\ stream = Empty /\ out = <<>> /\ ticks = 0 /\ phase = "pick"
        /\ ref = [out |-> <<>>, cut |-> FALSE]

Pick == /\ phase = "pick"
        /\ \E g \in Slice(Scope, slot) :
              LET r == Solve(Build("b", g), InitK(0), Fuel, NoDefs) IN
              /\ ast' = g /\ stream' = r.s /\ ticks' = r.t
              /\ phase' = IF r.cut THEN "cut" ELSE "run"
              /\ ref' = Eval(g, InitK(0), 50, NoDefs)
        /\ out' = <<>> /\ slot' = slot

(* one iteration of the loop of Solver::next *)
NextStep ==
  /\ phase = "run" /\ ast' = ast /\ slot' = slot /\ ref' = ref
  /\ CASE stream[1] = "empty" -> phase' = "exhausted" /\ ticks' = ticks + 1 /\ UNCHANGED <<stream, out>>
       [] stream[1] = "unit"  -> stream' = Empty /\ out' = Append(out, stream[2]) /\ ticks' = ticks + 1 /\ phase' = phase
       [] stream[1] = "cons"  -> stream' = Lazy(stream[3]) /\ out' = Append(out, stream[2]) /\ ticks' = ticks + 1 /\ phase' = phase
       [] stream[1] = "lazy"  ->
            LET r == Step(stream[2], Fuel, NoDefs) IN
            /\ stream' = r.s /\ ticks' = ticks + 1 + r.t /\ out' = out
            /\ phase' = IF r.cut \/ ticks > Fuel THEN "cut" ELSE "run"

Next == Pick \/ NextStep
Spec == Init /\ [][Next]_vars

-----------------------------------------------------------------------------
Ref == ref

CountIn(seq, x) == Cardinality({i \in 1..Len(seq) : seq[i] = x})
SubBagSeq(a, b) == \A i \in 1..Len(a) : CountIn(a, a[i]) <= CountIn(b, a[i])
SameBagSeq(a, b) == Len(a) = Len(b) /\ SubBagSeq(a, b)
IsPrefix2(a, b) == Len(a) <= Len(b) /\ \A i \in 1..Len(a) : a[i] = b[i]

OutV == [i \in 1..Len(out) |-> Vis(out[i])]
RefV == [i \in 1..Len(Ref.out) |-> Vis(Ref.out[i])]

(* C06: nothing is invented at any time; C05: in DFS the emitted sequence is a prefix of the
   reference sequence at any time *)
NoInvention == phase \in {"run", "exhausted"} /\ ~Ref.cut => SubBagSeq(OutV, RefV)
DfsPrefix == (Dfs /\ phase \in {"run", "exhausted"} /\ ~Ref.cut) => IsPrefix2(OutV, RefV)
(* C06: at exhaustion nothing has been lost *)
Complete == (phase = "exhausted" /\ ~Ref.cut) => SameBagSeq(OutV, RefV)
(* finite goal trees terminate within the fuel *)
Terminates == phase = "cut" => Ref.cut

EmitCase ==
  (Emit /\ phase \in {"exhausted", "cut"}) =>
     PrintT("CASE " \o ToJson([tag |-> Tag, goal |-> ast, n |-> Len(out), ticks |-> ticks, phase |-> phase]))

=============================================================================
