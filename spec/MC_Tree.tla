------------------------------ MODULE MC_Tree ------------------------------
(* Tree store scope: 14 eq/neq goals over three variables (lists, one compound type). *)
EXTENDS StoreMC

X == Var(1)
Y == Var(2)
Z == Var(3)
N(n) == Num(n)
L2(a, b) == TCons(a, TCons(b, Nil))
Pair(a, b) == <<"cmp", "Pair", <<a, b>>>>

TreeGoals ==
  { <<"eq", X, N(5)>>, <<"eq", Y, N(6)>>, <<"eq", X, Y>>, <<"eq", Z, L2(X, Y)>>,
    <<"eq", Z, Pair(X, N(6))>>, <<"eq", L2(X, Y), L2(Y, N(5))>>, <<"eq", X, TCons(Y, Nil)>>,
    <<"neq", X, N(5)>>, <<"neq", Y, N(6)>>, <<"neq", X, Y>>, <<"neq", L2(X, Y), L2(N(5), N(6))>>,
    <<"neq", Z, L2(X, Y)>>, <<"neq", Z, Pair(N(5), Y)>>, <<"neq", X, TCons(Y, Nil)>> }
TreeGoalsAfter(p) == TreeGoals

Atoms == {<<"num", 5>>, <<"num", 6>>, <<"sym", "s:fa">>, <<"sym", "s:fb">>}
(* X and Y range over atoms, nil and one-element lists; Z additionally over pairs and Pair
   compounds of atoms.  Both sides of Den are evaluated over the same valuations, so a
   finite universe can hide a difference but never invent one. *)
UXY == Atoms \cup {Nil} \cup {TCons(a, Nil) : a \in Atoms}
UZ == Atoms \cup {Nil} \cup {L2(a, b) : a \in Atoms, b \in Atoms}
      \cup {Pair(a, b) : a \in Atoms, b \in Atoms}
TreeVals == {(X :> a) @@ (Y :> b) @@ (Z :> c) : a \in UXY, b \in UXY, c \in UZ}
=============================================================================
