------------------------------- MODULE LiveMC -------------------------------
(***************************************************************************)
(* C07 (and the laziness half of C09): fairness and productivity of the    *)
(* interleaving disjunction.                                               *)
(*                                                                         *)
(* A case is a goal whose answers carry branch labels (leaf goals b1, b2,  *)
(* ... put at the end of each branch).  need[b] = min(M, number of answers *)
(* branch b yields on its own within the reference fuel) is a lower bound  *)
(* of what the branch alone produces.                                      *)
(*                                                                         *)
(*   Fair        (liveness, weak fairness of the engine step): eventually  *)
(*               every branch has contributed need[b] answers.  Checked on *)
(*               scopes whose engine model is finite-state (never, always, *)
(*               finite goals and nestings of these).                      *)
(*   Productive  (safety, any scope): the deterministic engine model       *)
(*               reaches all needs within K ticks.                         *)
(***************************************************************************)
EXTENDS Ref

CONSTANTS Scope, Branches(_), M, K, Emit, Tag, Labels, Defs,
          StepRun   \* FALSE: only Pick (Productive on scopes whose engine model is infinite-state)

VARIABLES ast, stream, cnt, need, phase, prod
vars == <<ast, stream, cnt, need, phase, prod>>

NoDefs == Defs
MinOf(a, b) == IF a < b THEN a ELSE b
Has(st, b) == \E i \in 1..Len(st.u.trail) : st.u.trail[i] = b
CountLabel(out, b) == Cardinality({i \in 1..Len(out) : Has(out[i], b)})

NeedOf(g) ==
  [b \in Labels |->
     IF b \in DOMAIN Branches(g)
     THEN MinOf(M, Len(Eval(Branches(g)[b], InitK(0), 8, NoDefs).out))
     ELSE 0]

(* run the deterministic engine model until every need is met (or K ticks) *)
RunUntil(g, nd) ==
  LET r0 == Solve(Build("b", g), InitK(0), K, NoDefs)
      Met(out) == \A b \in Labels : CountLabel(out, b) >= nd[b]
      RECURSIVE Go(_, _, _)
      Go(s, out, t) ==
        IF Met(out) THEN [met |-> TRUE, ticks |-> t, n |-> Len(out)]
        ELSE IF t > K THEN [met |-> FALSE, ticks |-> t, n |-> Len(out)]
        ELSE CASE s[1] = "empty" -> [met |-> FALSE, ticks |-> t, n |-> Len(out)]
               [] s[1] = "unit"  -> Go(Empty, Append(out, s[2]), t + 1)
               [] s[1] = "cons"  -> Go(Lazy(s[3]), Append(out, s[2]), t + 1)
               [] s[1] = "lazy"  -> LET r == Step(s[2], K, NoDefs) IN
                                    IF r.cut THEN [met |-> FALSE, ticks |-> t, n |-> Len(out)]
                                    ELSE Go(r.s, out, t + 1 + r.t)
  IN IF r0.cut THEN [met |-> FALSE, ticks |-> 0, n |-> 0] ELSE Go(r0.s, <<>>, r0.t)

Init == /\ ast = <<"none">> /\ stream = Empty /\ cnt = [b \in Labels |-> 0]
        /\ need = [b \in Labels |-> 0] /\ phase = "pick" /\ prod = [met |-> TRUE, ticks |-> 0, n |-> 0]

Pick == /\ phase = "pick"
        /\ \E g \in Scope :
              LET nd == NeedOf(g) IN
              /\ ast' = g /\ need' = nd /\ prod' = RunUntil(g, nd)
              /\ stream' = Solve(Build("b", g), InitK(0), K, NoDefs).s
        /\ cnt' = cnt /\ phase' = "run"

Bump(st) == [b \in Labels |-> IF Has(st, b) THEN MinOf(M, cnt[b] + 1) ELSE cnt[b]]

(* one iteration of the loop of Solver::next; the emitted state is forgotten except for the
   per-branch counters (saturating at M), so that the state space stays finite *)
NextStep ==
  /\ phase = "run" /\ UNCHANGED <<ast, need, prod>>
  /\ CASE stream[1] = "empty" -> phase' = "exhausted" /\ UNCHANGED <<stream, cnt>>
       [] stream[1] = "unit"  -> stream' = Empty /\ cnt' = Bump(stream[2]) /\ phase' = phase
       [] stream[1] = "cons"  -> stream' = Lazy(stream[3]) /\ cnt' = Bump(stream[2]) /\ phase' = phase
       [] stream[1] = "lazy"  -> /\ stream' = Step(stream[2], K, NoDefs).s
                                 /\ cnt' = cnt /\ phase' = phase

Next == Pick \/ (StepRun /\ NextStep)
Spec == Init /\ [][Next]_vars /\ WF_vars(Next)
SafetySpec == Init /\ [][Next]_vars

Fair == \A b \in Labels : <>(phase # "pick" /\ cnt[b] >= need[b])
Productive == phase # "pick" => prod.met

EmitCase ==
  (Emit /\ phase = "run" /\ cnt = [b \in Labels |-> 0]) =>
     PrintT("CASE " \o ToJson([tag |-> Tag, goal |-> ast, need |-> need, ticks |-> prod.ticks, n |-> prod.n]))

=============================================================================
