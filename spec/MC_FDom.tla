------------------------------ MODULE MC_FDom ------------------------------
(***************************************************************************)
(* Flow A for C18: a small machine over the domain algebra.  Its state is  *)
(* one (operation, operands) choice; TLC's state graph becomes one          *)
(* implementation test per transition.  The invariants are the algebraic    *)
(* laws the set meanings must satisfy (a sanity check of the specification  *)
(* itself: the specification of an operation IS its set meaning).           *)
(***************************************************************************)
EXTENDS FDom, Json

CONSTANTS Emit, Full

VARIABLES a, b, op, arg, phase
vars == <<a, b, op, arg, phase>>

W == -3..3
Itvs == {d \in {<<"itv", lo, hi>> : lo \in W, hi \in W} : d[2] <= d[3]}
(* sorted duplicate-free vectors over -2..2 *)
Subsets == SUBSET (-2..2) \ {{}}
SortedVecs == {<<"vec", AscSeq(S)>> : S \in Subsets}
(* vectors of length <= 3 over {-1,0,1} as handed to From<Vec<isize>>: unsorted, duplicated *)
Small == -1..1
RawVecs == {<<"vec", <<x>> >> : x \in Small} \cup {<<"vec", <<x, y>> >> : x \in Small, y \in Small}
           \cup {<<"vec", <<x, y, z>> >> : x \in Small, y \in Small, z \in Small}
Family == Itvs \cup SortedVecs \cup RawVecs
Light == {d \in Family : d[1] = "itv" \/ Len(d[2]) <= 2}

Binary == {"intersect", "diff", "is_disjoint", "eq"}
Unary == {"min", "max", "is_singleton", "singleton_value", "iter", "iter_rev", "into_iter"}
Thresh == {"contains", "copy_before_gt", "copy_before_ge", "drop_before_gt", "drop_before_ge"}

None == <<"none">>
Init == a \in Family /\ b = None /\ op = "none" /\ arg = 0 /\ phase = "pick"

Next == /\ phase = "pick" /\ phase' = "done" /\ a' = a
        /\ \/ op' \in Binary /\ b' \in (IF Full THEN Family ELSE Light) /\ arg' = 0
           \/ op' \in Unary /\ b' = None /\ arg' = 0
           \/ op' \in Thresh /\ b' = None /\ arg' \in -4..4

Spec == Init /\ [][Next]_vars

A == DAbs(a)
B == IF b = None THEN {} ELSE DAbs(b)
Exp == DomExpected(op, A, B, arg)

(* algebraic laws of the set meanings *)
Laws ==
  phase = "done" =>
    /\ op = "intersect" => Exp[2] \subseteq A /\ Exp[2] \subseteq B
    /\ op = "diff" => Exp[2] \subseteq A /\ Exp[2] \cap B = {}
    /\ op \in {"copy_before_gt", "copy_before_ge"} =>
         LET dropped == DomExpected(IF op = "copy_before_gt" THEN "drop_before_gt" ELSE "drop_before_ge", A, B, arg)[2]
         IN Exp[2] \cup dropped = A /\ Exp[2] \cap dropped = {}
            /\ \A x \in Exp[2], y \in dropped : x < y
    /\ op = "iter" => Len(Exp[2]) = Cardinality(A) /\ \A i \in 1..(Len(Exp[2]) - 1) : Exp[2][i] < Exp[2][i + 1]

EmitCase ==
  (Emit /\ phase = "done") =>
     PrintT("CASE " \o ToJson([a |-> a, b |-> b, op |-> op, arg |-> arg]))
=============================================================================
