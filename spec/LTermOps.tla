------------------------------ MODULE LTermOps ------------------------------
(***************************************************************************)
(* The Rust-side term container API of LTerm (src/lterm.rs) - C21.         *)
(* Every operation is specified on the element sequence Elems(t) of a list *)
(* term, an improper tail being the last element (what LTermIter yields).  *)
(* Equality is structural on literals, lists and compounds and by identity *)
(* on variables: it is TLA+ equality of the term values.                   *)
(***************************************************************************)
EXTENDS Terms

Rebuild(t, es) == IF IsProper(t) THEN ListOf(es) ELSE ImproperOf(es)

DispAtom(t) ==
  CASE t[1] = "num" -> ToString(t[2])
    [] t[1] = "var" -> "v"
    [] t[1] = "sym" ->
         (CASE t[2] = "b:true" -> "true" [] t[2] = "b:false" -> "false"
            [] t[2] = "c:a" -> "'a'" [] t[2] = "c:1" -> "'1'"
            [] t[2] = "s:a" -> "\"a\"" [] t[2] = "s:1" -> "\"1\"")

RECURSIVE Disp(_)
Disp(t) ==
  IF t[1] = "nil" THEN "[]"
  ELSE IF t[1] = "cons" THEN
    LET es == Elems(t)
        n == Len(es)
        improper == ~IsProper(t)
        RECURSIVE Go(_)
        Go(i) == IF i > n THEN ""
                 ELSE (IF i = 1 THEN "" ELSE IF improper /\ i = n THEN " | " ELSE ", ") \o Disp(es[i]) \o Go(i + 1)
    IN "[" \o Go(1) \o "]"
  ELSE DispAtom(t)

(* expected result (in the harness's result encoding) of operation `op` *)
TermExpected(op, t, u, xs, i) ==
  CASE op = "eq" -> <<"eq", t = u, t = u, TRUE, TRUE>>
    [] op \in {"from_vec", "from_array", "collect"} -> <<"term", ListOf(xs)>>
    [] op \in {"improper_from_vec", "improper_from_array"} -> <<"term", ImproperOf(xs)>>
    [] op = "extend" -> <<"term", ListOf(Elems(t) \o xs)>>
    [] op \in {"iter", "into_iter_ref"} -> <<"seq", Elems(t)>>
    [] op = "iter_mut_set" ->
         <<"term", IF t[1] \in {"nil", "cons"} THEN Rebuild(t, [k \in 1..Len(Elems(t)) |-> xs[1]]) ELSE xs[1]>>
    [] op = "index" -> <<"term", Elems(t)[i + 1]>>
    [] op = "index_mut_set" ->
         <<"term", IF t[1] \in {"nil", "cons"}
                   THEN Rebuild(t, [k \in 1..Len(Elems(t)) |-> IF k = i + 1 THEN xs[1] ELSE Elems(t)[k]])
                   ELSE xs[1]>>
    [] op = "head" -> IF t[1] = "cons" THEN <<"some", t[2]>> ELSE <<"none">>
    [] op = "tail" -> IF t[1] = "cons" THEN <<"some", t[3]>> ELSE <<"none">>
    [] op = "is_list" -> <<"bool", t[1] \in {"nil", "cons"}>>
    [] op = "is_empty" -> <<"bool", t[1] = "nil">>
    [] op = "is_improper" -> <<"bool", t[1] = "cons" /\ ~IsProper(t)>>
    [] op = "is_non_empty_list" -> <<"bool", t[1] = "cons">>
    [] op = "contains" -> <<"bool", \E k \in 1..Len(Elems(t)) : Elems(t)[k] = xs[1]>>
    [] op = "display" -> <<"str", Disp(t)>>

=============================================================================
