------------------------------ MODULE MC_LTerm ------------------------------
(***************************************************************************)
(* Flow A for C21: a machine whose state is one (operation, operands)       *)
(* choice over a bounded term universe; every transition becomes one        *)
(* implementation test.  Invariants: the laws the sequence view must obey   *)
(* (equality is an equivalence; iter of from_vec is the identity; ...).     *)
(***************************************************************************)
EXTENDS LTermOps, Json, SequencesExt

CONSTANTS Emit, Slots

VARIABLES c, phase, slot
vars == <<c, phase, slot>>

X == Var(1)
Y == Var(2)
Atoms == {Num(1), Num(2), <<"sym", "s:1">>, <<"sym", "c:1">>, <<"sym", "b:true">>, <<"sym", "s:a">>, X, Y}
A0 == Atoms \cup {Nil}
Pair(a, b) == <<"cmp", "Pair", <<a, b>>>>
T1 == A0 \cup {TCons(h, t) : h \in A0, t \in A0} \cup {Pair(a, b) : a \in {Num(1), X}, b \in {Num(1), Y, Nil}}
Small == {Num(1), Num(2), <<"sym", "s:1">>, X, Nil}
T2 == T1 \cup {TCons(h, TCons(m, t)) : h \in Small, m \in Small, t \in Small}
         \cup {TCons(TCons(h, Nil), t) : h \in Small, t \in {Nil, X, TCons(Num(1), Nil)}}
         \cup {TCons(Pair(Num(1), X), Nil), Pair(TCons(Num(1), Nil), Y)}
Lists == {t \in T2 : t[1] \in {"nil", "cons"}}
Seqs == {<<>>} \cup {<<a>> : a \in Small} \cup {<<a, b>> : a \in Small, b \in Small} \cup {<<Num(1), a, X>> : a \in Small}

RECURSIVE NoCmp(_)
NoCmp(l) == l[1] # "cmp" /\ (l[1] = "cons" => NoCmp(l[2]) /\ NoCmp(l[3]))
NoT == <<"none">>
Cases ==
  {[op |-> "eq", t |-> a, u |-> b, xs |-> <<>>, i |-> 0] : a \in T2, b \in T1}
  \cup {[op |-> o, t |-> NoT, u |-> NoT, xs |-> s, i |-> 0] : o \in {"from_vec", "from_array", "collect"}, s \in Seqs}
  \cup {[op |-> o, t |-> NoT, u |-> NoT, xs |-> s, i |-> 0] : o \in {"improper_from_vec", "improper_from_array"}, s \in Seqs \ {<<>>}}
  \cup {[op |-> "extend", t |-> a, u |-> NoT, xs |-> s, i |-> 0] : a \in {l \in Lists : IsProper(l)}, s \in Seqs}
  \cup {[op |-> o, t |-> a, u |-> NoT, xs |-> <<>>, i |-> 0] :
          o \in {"iter", "into_iter_ref", "head", "tail", "is_list", "is_empty", "is_improper", "is_non_empty_list"}, a \in T2}
  \cup {[op |-> "display", t |-> a, u |-> NoT, xs |-> <<>>, i |-> 0] : a \in {l \in T2 : NoCmp(l)}}
  \cup {[op |-> "iter_mut_set", t |-> a, u |-> NoT, xs |-> <<x>>, i |-> 0] : a \in Lists, x \in {Num(2), Y}}
  \cup {[op |-> o, t |-> a, u |-> NoT, xs |-> <<x>>, i |-> k] :
          o \in {"index", "index_mut_set"}, a \in {l \in Lists : l # Nil}, x \in {Num(2)}, k \in 0..2}
  \cup {[op |-> "contains", t |-> a, u |-> NoT, xs |-> <<x>>, i |-> 0] : a \in Lists, x \in Small \cup {TCons(Num(1), Nil)}}
WellFormedCase(k) == k.op \notin {"index", "index_mut_set"} \/ k.i < Len(Elems(k.t))
Scope == {k \in Cases : WellFormedCase(k)}

Slice(set, j) == LET seq == SetToSeq(set) IN {seq[n] : n \in {m \in 1..Len(seq) : m % Slots = j}}
Init == c = [op |-> "none"] /\ phase = "pick" /\ slot \in 0..(Slots - 1)
Next == phase = "pick" /\ phase' = "done" /\ slot' = slot /\ c' \in Slice(Scope, slot)
Spec == Init /\ [][Next]_vars

Exp == TermExpected(c.op, c.t, c.u, c.xs, c.i)
Laws ==
  phase = "done" =>
    /\ c.op \in {"from_vec", "collect"} => Elems(Exp[2]) = c.xs /\ IsProper(Exp[2])
    /\ c.op = "extend" => Elems(Exp[2]) = Elems(c.t) \o c.xs
    /\ c.op = "iter_mut_set" /\ c.t[1] = "cons" => Len(Elems(Exp[2])) = Len(Elems(c.t))
    /\ c.op = "eq" => (Exp[2] = (c.u = c.t))

EmitCase == (Emit /\ phase = "done") => PrintT("CASE " \o ToJson(c))
=============================================================================
