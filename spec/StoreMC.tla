------------------------------ MODULE StoreMC ------------------------------
(***************************************************************************)
(* Flow A machine for one constraint store: every sequence of at most K    *)
(* posts, each drawn from GoalsAfter(posted), under every schedule index in *)
(* Sched.  The invariants are the formal core of C01, C02, C16, C17 (store *)
(* half), C19, C20, C22; see DESIGN 3.2.  Maximal behaviours are printed   *)
(* as CASE lines (flows B and C execute them on the real code).            *)
(***************************************************************************)
EXTENDS Kanren, Json

CONSTANTS K,           \* maximal number of posts
          Sched,       \* schedule indices explored
          Emit,        \* print CASE lines
          GoalsAfter(_), \* alphabet of the next post, given the sequence posted so far
          Vals,        \* the ground valuations the denotations are compared over
          Tag,         \* name of the configuration (copied into the CASE lines)
          Slots        \* the first post is partitioned into this many initial states
                       \* (TLC expands one state on one worker: this spreads the work)

VARIABLES S, posted, slot
vars == <<S, posted, slot>>

Init == S \in {InitStore(k) : k \in Sched} /\ posted = <<>> /\ slot \in 0..(Slots - 1)

Slice(set, i) == LET seq == SetToSeq(set) IN {seq[j] : j \in {m \in 1..Len(seq) : m % Slots = i}}

Next == /\ S.ok
        /\ Len(posted) < K
        /\ slot' = slot
        /\ \E g \in (IF Len(posted) = 0 THEN Slice(GoalsAfter(posted), slot) ELSE GoalsAfter(posted)) :
              S' = Post(S, g) /\ posted' = Append(posted, g)

Spec == Init /\ [][Next]_vars

AllSat(val) == \A i \in DOMAIN posted : SatGoal(posted[i], val)

(* C01/C02/C19/C20: the store denotes exactly the solutions of what has been posted,
   whatever the order (the right-hand side does not depend on the order) *)
Den == \A val \in Vals : (S.ok /\ SatStore(S, val)) = AllSat(val)

(* C16/C17: propagation never loses a solution and never fails wrongly (it may keep
   non-solutions: the stored constraints are still there to be checked) *)
Sound == \A val \in Vals : AllSat(val) => (S.ok /\ SatStore(S, val))

(* C01: no cyclic substitution; both sides of every posted equation resolve to one term *)
AcyclicInv == Acyclic(S.smap)
UnifiedIdentical ==
  S.ok => \A i \in DOMAIN posted :
            posted[i][1] = "eq" => WalkStar(Norm(posted[i][2]), S.smap) = WalkStar(Norm(posted[i][3]), S.smap)

(* design normal form of the disequality store *)
NeqNormal ==
  S.ok => /\ \A c \in S.cs : \A d \in S.cs : (c # d /\ c[1] = "neq" /\ d[1] = "neq") => ~Subsumes(c, d)
          /\ \A c \in S.cs : c[1] = "neq" => \A x \in DOMAIN c[2] : Walk(x, S.smap) = x

(* design normal form of the domain store: no bound variable has a domain, no stored domain
   is empty or a singleton *)
FdStoreWf ==
  S.ok => \A x \in DOMAIN S.ds : x \notin DOMAIN S.smap /\ Cardinality(S.ds[x]) >= 2

(* C22 *)
UserBalance == S.u.with - S.u.take = Cardinality(S.cs)
ExtensionExact ==
  LET all == UNION {{<<x, S.u.exts[i][x]>> : x \in DOMAIN S.u.exts[i]} : i \in DOMAIN S.u.exts}
  IN S.ok => all \subseteq {<<x, S.smap[x]>> : x \in DOMAIN S.smap}

EmitCase ==
  (Emit /\ (Len(posted) = K \/ ~S.ok)) =>
     PrintT("CASE " \o ToJson([tag |-> Tag, k |-> S.k, ops |-> posted]))

=============================================================================
