SPECIFICATION Spec
CONSTANTS
  K = 3
  Sched = {0}
  Emit = TRUE
  Tag = "tree"
  GoalsAt <- TreeGoalsAt
  Vals <- TreeVals
INVARIANTS Den AcyclicInv UnifiedIdentical NeqNormal UserBalance ExtensionExact EmitCase
CHECK_DEADLOCK FALSE
