-------------------------------- MODULE MC_Z --------------------------------
(***************************************************************************)
(* CLP(Z) scope for StoreMC (C19): plusz / timesz with every operand        *)
(* pattern over three variables and small integers (aliasing, zero          *)
(* multipliers, non-divisible products), at most MaxCons constraints, in    *)
(* every order with bindings `v == n` and `X == Y`.                         *)
(***************************************************************************)
EXTENDS StoreMC

CONSTANTS MaxCons, MaxEq, Rich

X == Var(1)
Y == Var(2)
Z == Var(3)
N(n) == Num(n)
ZVars == {X, Y, Z}
Ints == IF Rich THEN {-3, -2, 0, 1, 2, 3} ELSE {-2, 0, 2, 3}
Ops == ZVars \cup {N(n) : n \in Ints}
ZCons == {<<k, u, v, w>> : k \in {"plusz", "timesz"}, u \in Ops, v \in Ops, w \in Ops}
ZSmall == {<<"plusz", X, Y, Z>>, <<"timesz", X, Y, Z>>, <<"plusz", Y, N(2), X>>, <<"timesz", N(2), Y, X>>,
           <<"timesz", Z, Z, Y>>, <<"plusz", X, X, Y>>, <<"timesz", N(0), X, Y>>, <<"plusz", Z, N(-2), Y>>}
ZEqs == {<<"eq", v, N(n)>> : v \in ZVars, n \in {-2, 0, 1, 2, 3}} \cup {<<"eq", X, Y>>}

IsEq(g) == g[1] = "eq"
CountP(p, Test(_)) == Cardinality({i \in 1..Len(p) : Test(p[i])})
NotEq(g) == ~IsEq(g)
ZGoalsAfter(p) ==
  (IF CountP(p, NotEq) = 0 THEN ZCons ELSE IF CountP(p, NotEq) < MaxCons THEN ZSmall ELSE {})
  \cup (IF CountP(p, IsEq) < MaxEq THEN ZEqs ELSE {})

Win == -4..6
ZVals == {(X :> N(a)) @@ (Y :> N(b)) @@ (Z :> N(c)) : a \in Win, b \in Win, c \in Win}

(* C19: a stored constraint is never one that could already be decided: with two operands
   ground the third is bound (or the goal failed), except when every integer works
   (0 * r = 0) *)
ZResolved ==
  S.ok => \A c \in S.cs : c[1] \in {"plusz", "timesz"} =>
     LET ws == <<Walk(c[2], S.smap), Walk(c[3], S.smap), Walk(c[4], S.smap)>>
         nums == {i \in 1..3 : IsNum(ws[i])}
     IN \/ Cardinality(nums) <= 1
        \/ c[1] = "timesz" /\ IsNum(ws[3]) /\ ws[3][2] = 0
           /\ ((IsNum(ws[1]) /\ ws[1][2] = 0) \/ (IsNum(ws[2]) /\ ws[2][2] = 0))
=============================================================================
