------------------------------- MODULE Terms -------------------------------
(***************************************************************************)
(* The term algebra of proto-vulcan (src/lterm.rs, src/lvalue.rs,          *)
(* src/compound.rs) and triangular substitutions (src/state/substitution.rs)*)
(*                                                                         *)
(* Every value that crosses the TLA+/JSON boundary is a tagged tuple:      *)
(*   <<"num",n>>  <<"sym",s>>  <<"nil">>  <<"cons",h,t>>                   *)
(*   <<"cmp",type,<<a1,...,an>>>>                                          *)
(*   variables: <<"var",i>> (declared by the case), <<"any",k>> (reified   *)
(*   `_` variable), <<"uvar",k>> (a variable the case does not know)       *)
(* Case files may also use <<"list",<<t..>>>>, <<"ilist",<<t..>>>> and     *)
(* <<"any",k>> (wildcard number k of the case); Norm rewrites those.       *)
(*                                                                         *)
(* A substitution is a function from variable terms to terms.              *)
(***************************************************************************)
EXTENDS Naturals, Integers, Sequences, FiniteSets, TLC, Functions

IsVar(t) == t[1] \in {"var", "any", "uvar"}
IsNum(t) == t[1] = "num"
IsAtom(t) == t[1] \in {"num", "sym"}
Nil == <<"nil">>
TCons(h, t) == <<"cons", h, t>>
Var(i) == <<"var", i>>
Num(n) == <<"num", n>>


RECURSIVE ListOf(_)
ListOf(seq) == IF Len(seq) = 0 THEN Nil ELSE TCons(Head(seq), ListOf(Tail(seq)))

RECURSIVE ImproperOf(_)
ImproperOf(seq) == IF Len(seq) = 1 THEN seq[1] ELSE TCons(Head(seq), ImproperOf(Tail(seq)))

(* case-file sugar -> core terms *)
RECURSIVE Norm(_)
Norm(t) ==
  CASE t[1] = "list"  -> ListOf([i \in 1..Len(t[2]) |-> Norm(t[2][i])])
    [] t[1] = "ilist" -> ImproperOf([i \in 1..Len(t[2]) |-> Norm(t[2][i])])
    [] t[1] = "cons"  -> TCons(Norm(t[2]), Norm(t[3]))
    [] t[1] = "cmp"   -> <<"cmp", t[2], [i \in 1..Len(t[3]) |-> Norm(t[3][i])]>>
    [] t[1] = "any"   -> <<"var", t[2]>>
    [] OTHER          -> t

(* The element sequence of a list term, an improper tail being the last element
   (what LTermIter yields). *)
RECURSIVE Elems(_)
Elems(t) ==
  CASE t[1] = "nil"  -> <<>>
    [] t[1] = "cons" -> IF t[3][1] = "nil" THEN <<t[2]>> ELSE <<t[2]>> \o Elems(t[3])
    [] OTHER         -> <<t>>

RECURSIVE IsProper(_)
IsProper(t) == t[1] = "nil" \/ (t[1] = "cons" /\ IsProper(t[3]))

RECURSIVE VarsOf(_)
VarsOf(t) ==
  CASE IsVar(t)       -> {t}
    [] t[1] = "cons"  -> VarsOf(t[2]) \cup VarsOf(t[3])
    [] t[1] = "cmp"   -> UNION {VarsOf(t[3][i]) : i \in 1..Len(t[3])}
    [] OTHER          -> {}

Ground(t) == VarsOf(t) = {}

RECURSIVE Depth(_)
Depth(t) ==
  CASE t[1] = "cons" -> 1 + (IF Depth(t[2]) > Depth(t[3]) THEN Depth(t[2]) ELSE Depth(t[3]))
    [] t[1] = "cmp"  -> 1 + (LET ds == {Depth(t[3][i]) : i \in 1..Len(t[3])}
                             IN IF ds = {} THEN 0 ELSE CHOOSE d \in ds : \A e \in ds : e <= d)
    [] OTHER         -> 0

(* variables in order of first occurrence, left to right, without repetition *)
RECURSIVE VarSeqAcc(_, _)
VarSeqAcc(t, acc) ==
  CASE IsVar(t)      -> IF \E i \in 1..Len(acc) : acc[i] = t THEN acc ELSE Append(acc, t)
    [] t[1] = "cons" -> VarSeqAcc(t[3], VarSeqAcc(t[2], acc))
    [] t[1] = "cmp"  -> LET RECURSIVE Go(_, _)
                            Go(i, a) == IF i > Len(t[3]) THEN a ELSE Go(i + 1, VarSeqAcc(t[3][i], a))
                        IN Go(1, acc)
    [] OTHER         -> acc
VarSeq(t) == VarSeqAcc(t, <<>>)

-----------------------------------------------------------------------------
(* Substitutions *)

EmptyMap == [x \in {} |-> x]
Ext(s, k, v) == [x \in (DOMAIN s) \cup {k} |-> IF x = k THEN v ELSE s[x]]
MapOfPairs(pairs) ==
  [k \in {pairs[i][1] : i \in DOMAIN pairs} |->
      pairs[CHOOSE i \in DOMAIN pairs : pairs[i][1] = k][2]]

(* SMap::walk.  Only defined on acyclic substitutions. *)
RECURSIVE Walk(_, _)
Walk(t, s) == IF IsVar(t) /\ t \in DOMAIN s THEN Walk(s[t], s) ELSE t

(* SMap::walk_star *)
RECURSIVE WalkStar(_, _)
WalkStar(t, s) ==
  LET w == Walk(t, s) IN
  CASE w[1] = "cons" -> TCons(WalkStar(w[2], s), WalkStar(w[3], s))
    [] w[1] = "cmp"  -> <<"cmp", w[2], [i \in 1..Len(w[3]) |-> WalkStar(w[3][i], s)]>>
    [] OTHER         -> w

(* SMap::occurs_check(x, v): does variable x occur in v under s *)
RECURSIVE Occurs(_, _, _)
Occurs(x, t, s) ==
  LET w == Walk(t, s) IN
  CASE IsVar(w)      -> w = x
    [] w[1] = "cons" -> Occurs(x, w[2], s) \/ Occurs(x, w[3], s)
    [] w[1] = "cmp"  -> \E i \in 1..Len(w[3]) : Occurs(x, w[3][i], s)
    [] OTHER         -> FALSE

(* A substitution is acyclic iff following bindings from any variable terminates.
   Reach(x) = variables reachable from x through one or more bindings. *)
StepVars(s, x) == IF x \in DOMAIN s THEN VarsOf(s[x]) ELSE {}
RECURSIVE ReachFrom(_, _, _)
ReachFrom(s, frontier, seen) ==
  LET next == (UNION {StepVars(s, x) : x \in frontier}) IN
  IF next \subseteq seen THEN seen ELSE ReachFrom(s, next \ seen, seen \cup next)
Acyclic(s) == \A x \in DOMAIN s : x \notin ReachFrom(s, {x}, {})

(* apply a ground valuation (function from variables to ground terms) *)
RECURSIVE Inst(_, _)
Inst(t, val) ==
  CASE IsVar(t)      -> IF t \in DOMAIN val THEN val[t] ELSE t
    [] t[1] = "cons" -> TCons(Inst(t[2], val), Inst(t[3], val))
    [] t[1] = "cmp"  -> <<"cmp", t[2], [i \in 1..Len(t[3]) |-> Inst(t[3][i], val)]>>
    [] OTHER         -> t

(* consistent renaming of variables by a function on variable terms *)
Rename(t, r) == Inst(t, r)

-----------------------------------------------------------------------------
(* Bounded universes (used by the MC_* configurations) *)

(* ground terms of depth <= d over atoms A: lists only *)
RECURSIVE GU(_, _)
GU(A, d) ==
  IF d = 0 THEN A \cup {Nil}
  ELSE LET P == GU(A, d - 1) IN P \cup {TCons(h, t) : h \in P, t \in P}

(* terms with variables V, depth <= d *)
RECURSIVE TU(_, _, _)
TU(A, V, d) ==
  IF d = 0 THEN A \cup V \cup {Nil}
  ELSE LET P == TU(A, V, d - 1) IN P \cup {TCons(h, t) : h \in P, t \in P}

=============================================================================
