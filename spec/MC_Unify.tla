------------------------------ MODULE MC_Unify ------------------------------
(***************************************************************************)
(* C01 scope: one unification of every ordered pair of terms of a bounded  *)
(* universe (lists: UGoalsAt / compounds: CGoalsAt), optionally after one  *)
(* prior unification (position 1 when K = 2).  The Den invariant over a    *)
(* ground universe with two fresh atoms is most-generality: the store has  *)
(* exactly the ground unifiers as instances.                               *)
(***************************************************************************)
EXTENDS StoreMC

CONSTANT WithPrior

X == Var(1)
Y == Var(2)
Sym2 == <<"sym", "s:a">>
T0 == {X, Y, Num(1), Sym2, Nil}
T1 == T0 \cup {TCons(h, t) : h \in T0, t \in T0}
(* depth 2: lists of length two (proper and improper) and nested one-element lists *)
TL == T1 \cup {TCons(h, t) : h \in T0, t \in T1} \cup {TCons(h, Nil) : h \in T1}

Priors == {<<"eq", v, t>> : v \in {X, Y},
                            t \in T0 \cup {TCons(Y, Nil), TCons(Num(1), X), TCons(X, Y)}}

UPairs == {<<"eq", u, v>> : u \in TL, v \in TL}
UGoalsAfter(p) == IF WithPrior /\ Len(p) = 0 THEN Priors ELSE UPairs

GAtoms == {Num(1), Sym2, <<"sym", "s:fa">>, <<"sym", "s:fb">>}
G0 == GAtoms \cup {Nil}
GU1 == G0 \cup {TCons(h, t) : h \in G0, t \in G0}
UVals == {(X :> a) @@ (Y :> b) : a \in GU1, b \in GU1}

(* compounds *)
Pair(a, b) == <<"cmp", "Pair", <<a, b>>>>
Box1(a) == <<"cmp", "Box1", <<a>>>>
Tuple(a, b) == <<"cmp", "Tuple", <<a, b>>>>
TC == T0 \cup {Pair(a, b) : a \in T0, b \in T0} \cup {Box1(a) : a \in T0}
         \cup {TCons(a, b) : a \in T0, b \in T0}
         \cup {Box1(Pair(a, b)) : a \in T0, b \in T0}
         \cup {Pair(Box1(a), b) : a \in T0, b \in T0}
         \cup {Pair(TCons(a, Nil), b) : a \in T0, b \in T0}
         \cup {Tuple(a, b) : a \in {X, Num(1)}, b \in T0}
CPairs == {<<"eq", u, v>> : u \in TC, v \in TC}
CGoalsAfter(p) == IF WithPrior /\ Len(p) = 0 THEN Priors ELSE CPairs
CAtoms == {Num(1), <<"sym", "s:fa">>, <<"sym", "s:fb">>}
CG0 == CAtoms \cup {Nil}
CGU == CG0 \cup {Pair(a, b) : a \in CG0, b \in CG0} \cup {Box1(a) : a \in CG0}
           \cup {TCons(a, b) : a \in CG0, b \in CG0} \cup {Tuple(a, b) : a \in CAtoms, b \in CAtoms}
CVals == {(X :> a) @@ (Y :> b) : a \in CGU, b \in CGU}
=============================================================================
