------------------------------- MODULE MC_Lib -------------------------------
(***************************************************************************)
(* Flow A for C24 (LibCorrect): the goal-AST definitions of the library    *)
(* relations (Kanren.LibDef, evaluated by the reference semantics) against *)
(* their sequence-level meaning (Lib.tla), for every argument mode over    *)
(* lists of length <= 2 (3 for the first argument patterns) with elements  *)
(* from {1, 2} and variables.  Each mode instance is also a case for the   *)
(* real relations (flows B and C).                                         *)
(***************************************************************************)
EXTENDS Lib

CONSTANTS Emit, Slots, Rels

VARIABLES inst, phase, slot
vars == <<inst, phase, slot>>

X == Var(1)
Y == Var(2)
Z == Var(3)
E == {Num(1), Num(2)}
L0 == {Nil}
L1 == {TCons(a, Nil) : a \in E}
L2 == {TCons(a, TCons(b, Nil)) : a \in E, b \in E}
L3 == {TCons(Num(1), TCons(a, TCons(b, Nil))) : a \in E, b \in E}
GLists == L0 \cup L1 \cup L2 \cup L3
(* partially ground lists: a variable element, a variable tail *)
PLists == {TCons(X, Nil), TCons(Num(1), TCons(Y, Nil)), TCons(X, TCons(Num(2), Nil)), TCons(X, TCons(X, Nil)),
            TCons(X, TCons(Y, Nil)), TCons(Num(1), Y)}
ListArgs == GLists \cup PLists
ElemArgs == E \cup {X, Z}

Insts(rel) ==
  CASE rel \in {"member", "member1"} -> {<<rel, <<e, l>> >> : e \in ElemArgs, l \in ListArgs}
    [] rel = "append" -> {<<rel, <<a, b, c>> >> : a \in L0 \cup L1 \cup L2 \cup {X, TCons(Num(1), X)},
                                                  b \in L0 \cup L1 \cup {Y, X},
                                                  c \in GLists \cup {Z, TCons(Num(1), Z)}}
                         \ {<<rel, <<a, b, c>> >> : a \in {X, TCons(Num(1), X)}, b \in {Y, X, Nil} \cup L1,
                                                    c \in {Z, TCons(Num(1), Z)}}
    [] rel = "rember" -> {<<rel, <<e, l, o>> >> : e \in ElemArgs, l \in GLists \cup {TCons(Num(1), TCons(X, Nil))},
                                                  o \in L0 \cup L1 \cup L2 \cup {Y}}
    [] rel = "permute" -> {<<rel, <<a, b>> >> : a \in GLists, b \in L0 \cup L1 \cup L2 \cup L3 \cup {Y}}
    [] rel = "distinct" -> {<<rel, <<l>> >> : l \in (GLists \cup PLists) \ {TCons(Num(1), Y)}}
    [] rel = "cons" -> {<<rel, <<a, b, c>> >> : a \in ElemArgs, b \in L0 \cup L1 \cup {Y}, c \in L0 \cup L1 \cup L2 \cup {Z}}
    [] rel \in {"first", "rest"} -> {<<rel, <<l, e>> >> : l \in ListArgs \cup {Z}, e \in E \cup {X, Nil} \cup L1}
    [] rel = "empty" -> {<<rel, <<l>> >> : l \in L0 \cup L1 \cup {X}}

AllInsts == UNION {Insts(r) : r \in Rels}
Slice(set, i) == LET seq == SetToSeq(set) IN {seq[j] : j \in {m \in 1..Len(seq) : m % Slots = i}}

Init == inst = <<"none">> /\ phase = "pick" /\ slot \in 0..(Slots - 1)
Next == phase = "pick" /\ phase' = "done" /\ slot' = slot /\ inst' \in Slice(AllInsts, slot)
Spec == Init /\ [][Next]_vars

Case == [qvars |-> <<1, 2, 3>>, body |-> << <<"call", inst[1], inst[2]>> >>]
LibCorrect ==
  phase = "done" =>
    LET args == inst[2]
        used == UNION {VarsOf(args[i]) : i \in 1..Len(args)}
        qs == SetToSeq(used)
        spec == QueryAnswers([qvars |-> [i \in 1..Len(qs) |-> qs[i][2]], body |-> Case.body], 12)
    IN LibReasons(inst[1], args, qs, spec.answers, ~spec.cut, LibValsFor(args)) = {}

EmitCase == (Emit /\ phase = "done") => PrintT("CASE " \o ToJson([rel |-> inst[1], args |-> inst[2]]))
=============================================================================
