-------------------------------- MODULE Ref --------------------------------
(***************************************************************************)
(* Reference (denotational) semantics of goal ASTs.                        *)
(*                                                                         *)
(*   Eval(g, S, fuel, D)  the SEQUENCE of result stores of goal g from     *)
(*                        store S in left-to-right depth-first order       *)
(*                        (= Seq of DESIGN 3.4; its bag is Bag); `cut`     *)
(*                        says that the fuel for recursive unfoldings ran  *)
(*                        out, i.e. the sequence is only a prefix          *)
(*   QueryAnswers         answers of a query case: Eval, FD labelling,     *)
(*                        reification                                      *)
(*                                                                         *)
(* The only place where the reference consults the engine model of         *)
(* Search.tla is committed choice with a single kept answer (condu,        *)
(* onceo): the property says "the first answer in engine order".           *)
(***************************************************************************)
EXTENDS Search

(* user state and store of a state, without the engine-internal variable counter *)
Vis(st) == [smap |-> st.smap, cs |-> st.cs, ds |-> st.ds, u |-> st.u]

(* first state the engine model emits for goal g from store S (empty if none / divergence) *)
EngineFirst(g, S, D) ==
  LET r == Solve(Build("b", g), S, 300, D) IN
  IF r.cut THEN <<>> ELSE RunStream(r.s, 1, 300, D).out

(* Reference semantics.  Eval returns [out: sequence of stores, cut: fuel ran out].  *)

AtomicTags == {"eq", "neq", "dom", "ltefd", "ltfd", "neqfd", "plusfd", "minusfd", "timesfd",
               "distinctfd", "plusz", "timesz", "succeed", "fail", "leaf"}

R(out, cut) == [out |-> out, cut |-> cut]

RECURSIVE Eval(_, _, _, _)
RECURSIVE EvalSeq(_, _, _, _)      \* conjunction of a goal list from one store
RECURSIVE EvalSeqFrom(_, _, _, _)  \* conjunction of a goal list from each of a sequence of stores

EvalSeqFrom(gs, Ss, fuel, D) ==
  IF Len(Ss) = 0 THEN R(<<>>, FALSE)
  ELSE LET a == EvalSeq(gs, Head(Ss), fuel, D)
           b == EvalSeqFrom(gs, Tail(Ss), fuel, D)
       IN R(a.out \o b.out, a.cut \/ b.cut)

EvalSeq(gs, S, fuel, D) ==
  IF Len(gs) = 0 THEN R(<<S>>, FALSE)
  ELSE LET a == Eval(Head(gs), S, fuel, D)
           b == EvalSeqFrom(Tail(gs), a.out, fuel, D)
       IN R(b.out, a.cut \/ b.cut)

(* disjunction of clauses (each a goal list) from one store, in clause order *)
EvalClauses(cls, S, fuel, D) ==
  LET RECURSIVE Go(_)
      Go(i) == IF i > Len(cls) THEN R(<<>>, FALSE)
               ELSE LET a == EvalSeq(cls[i], S, fuel, D)  b == Go(i + 1)
                    IN R(a.out \o b.out, a.cut \/ b.cut)
  IN Go(1)

(* committed choice: first clause whose head (first goal) has an answer; once = keep only
   the first head answer *)
EvalCommit(cls, S, fuel, D, once) ==
  LET RECURSIVE Go(_)
      Go(i) ==
        IF i > Len(cls) THEN R(<<>>, FALSE)
        ELSE IF Len(cls[i]) = 0 THEN Go(i + 1)
        ELSE LET h == Eval(cls[i][1], S, fuel, D) IN
             IF Len(h.out) > 0
             THEN LET (* condu / onceo keep the head answer the ENGINE produces first; it must be
                         one of the head's answers (otherwise no answer is accepted) *)
                      ef == EngineFirst(cls[i][1], S, D)
                      hs == IF ~once THEN h.out
                            ELSE IF Len(ef) > 0 /\ \E n \in 1..Len(h.out) : Vis(h.out[n]) = Vis(ef[1])
                            THEN <<ef[1]>> ELSE <<>>
                      r == EvalSeqFrom(Tail(cls[i]), hs, fuel, D)
                  IN R(r.out, (h.cut /\ ~once) \/ r.cut)
             ELSE IF h.cut THEN R(<<>>, TRUE)
             ELSE Go(i + 1)
  IN Go(1)

Eval(g, S, fuel, D) ==
  IF g[1] \in AtomicTags
  THEN LET S1 == Post(S, g) IN IF S1.ok THEN R(<<S1>>, FALSE) ELSE R(<<>>, FALSE)
  ELSE
  CASE g[1] = "probe" -> R(<<S>>, FALSE)
    [] g[1] = "show"  -> R(<<[S EXCEPT !.u.trail = Append(@, ShowOf(WalkStar(Norm(g[2]), S.smap)))]>>, FALSE)
    [] g[1] = "isnum" -> IF IsNum(Norm(g[2])) THEN R(<<S>>, FALSE) ELSE R(<<>>, FALSE)
    [] g[1] = "isground" -> IF Ground(Norm(g[2])) THEN R(<<S>>, FALSE) ELSE R(<<>>, FALSE)
    [] g[1] \in {"conj", "closure"} -> EvalSeq(g[2], S, fuel, D)
    [] g[1] = "rawconj" -> EvalSeq(<<g[2], g[3]>>, S, fuel, D)
    (* <<"twice", g, g2>>: the implementation enters ONE goal value two times in a row; its meaning is the
       conjunction of g with g2, the same goal with its bound variables renamed apart (every entry of a
       closure / fresh block / pattern arm introduces new variables) *)
    [] g[1] = "twice" -> EvalSeq(<<g[2], g[3]>>, S, fuel, D)
    [] g[1] = "rawdisj" -> EvalClauses(<< <<g[2]>>, <<g[3]>> >>, S, fuel, D)
    [] g[1] = "disj" -> EvalClauses([i \in 1..Len(g[2]) |-> <<g[2][i]>>], S, fuel, D)
    [] g[1] \in {"conde", "cond"} -> EvalClauses(g[2], S, fuel, D)
    [] g[1] = "dfs" -> EvalSeq(FlatSeq(g[2]), S, fuel, D)
    [] g[1] = "fresh" -> EvalSeq(g[3], S, fuel, D)
    [] g[1] = "conda" -> EvalCommit(g[2], S, fuel, D, FALSE)
    [] g[1] = "condu" -> EvalCommit(g[2], S, fuel, D, TRUE)
    [] g[1] = "onceo" -> EvalCommit(<< <<<<"conj", FlatSeq(g[2])>>>> >>, S, fuel, D, TRUE)
    [] g[1] = "project" ->
         (* the body sees the walk*-ed value of the projected variables in THIS store *)
         LET ren == [v \in {V(g[2][i]) : i \in 1..Len(g[2])} |-> WalkStar(v, S.smap)]
         IN EvalSeq(SubstGs(g[3], ren), S, fuel, D)
    [] g[1] = "for" ->
         (* conjunction of the body for every element of the collection *)
         EvalSeq(FlatSeq([i \in 1..Len(g[3]) |->
                            FlatSeq(SubstCl(g[4], (V(g[2]) :> g[3][i])))]), S, fuel, D)
    [] g[1] = "call" ->
         IF fuel = 0 THEN R(<<>>, TRUE)
         ELSE LET def == DefOf(g[2], D)
                  body == Unfold(def, g[3], S.next)
              IN Eval(body, [S EXCEPT !.next = @ + Len(def.locals)], fuel - 1, D)
    [] g[1] = "loop" ->    (* anyo: conde { g, anyo { g } } *)
         IF fuel = 0 THEN R(<<>>, TRUE)
         ELSE LET a == EvalSeq(FlatSeq(g[2]), S, fuel - 1, D)
                  b == Eval(g, S, fuel - 1, D)
              IN R(a.out \o b.out, a.cut \/ b.cut)
    (* the query pipeline (src/query.rs, src/state/reification.rs): labelling of the query term,
       ONE labelling of the remaining domain variables, reification *)
    [] g[1] = "forceans" -> R(ForceAns(g[2], S), FALSE)
    [] g[1] = "fdtail" ->
         LET rest == ForceAns(ListOf(SetToSeq(DOMAIN S.ds)), S) IN
         R(IF Len(rest) > 0 THEN <<rest[1]>> ELSE <<>>, FALSE)
    [] g[1] = "reifyast" -> R(EnforceFd(g[2], S), FALSE)
    [] g[1] = "query" ->
         (* <<"query", qvars, body>>: what proto_vulcan_query! runs; V(0) is __query__ *)
         LET qs == [i \in 1..Len(g[2]) |-> V(g[2][i])]
             r == EvalSeq(<< <<"eq", V(0), ListOf(qs)>> >> \o ElabGs(g[3]), S, fuel, D)
         IN R(FlatSeq([i \in 1..Len(r.out) |-> EnforceFd(V(0), r.out[i])]), r.cut)
    [] g[1] = "always" -> Eval(<<"loop", << << <<"succeed">> >> >> >>, S, fuel, D)
    [] g[1] = "never" -> R(<<>>, TRUE)


(* The answers of a query case, in reference (depth-first) order *)
QueryAnswers(case, fuel) ==
  LET qs == [i \in 1..Len(case.qvars) |-> V(case.qvars[i])]
      D == IF "defs" \in DOMAIN case THEN case.defs ELSE [x \in {} |-> x]
      r == EvalSeq(ElabGs(case.body), InitK(0), fuel, D)
      labelled == FlatSeq([i \in 1..Len(r.out) |-> EnforceFd(ListOf(qs), r.out[i])])
  IN [answers |-> [i \in 1..Len(labelled) |-> Reify(labelled[i], qs)], cut |-> r.cut,
      finals |-> labelled,
      (* number of labelled answers per answer of the body: the answers of the body are reified one
         after the other, the order INSIDE such a block is the labelling's own *)
      blen |-> [i \in 1..Len(r.out) |-> Len(EnforceFd(ListOf(qs), r.out[i]))]]


=============================================================================
