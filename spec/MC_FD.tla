------------------------------- MODULE MC_FD -------------------------------
(***************************************************************************)
(* CLP(FD) scope for StoreMC (C16, C17, the FD half of C04/C09/C10):       *)
(* every order of posting                                                  *)
(*   - at most one domain per variable (8 shapes: intervals and sparse     *)
(*     lists, positive, negative, mixed sign, singleton),                  *)
(*   - at most MaxCons constraints of every kind with every operand        *)
(*     aliasing pattern over the variables and constants,                  *)
(*   - at most one equation (variable/variable, variable/constant, a list  *)
(*     unification binding two FD variables at once),                      *)
(* under every schedule index in Sched.                                    *)
(***************************************************************************)
EXTENDS StoreMC

CONSTANTS NVars, MaxCons, MaxEq, Rich

X == Var(1)
Y == Var(2)
Z == Var(3)
VarsUsed == IF NVars = 2 THEN {X, Y} ELSE {X, Y, Z}
N(n) == Num(n)
Consts == IF Rich THEN {N(-1), N(2)} ELSE {N(2)}
Ops == VarsUsed \cup Consts

Doms == IF Rich
        THEN {<<"itv", 1, 3>>, <<"itv", -2, 2>>, <<"vec", <<-2, 0, 2>> >>, <<"itv", 0, 1>>,
              <<"itv", -3, -1>>, <<"vec", <<3, 1>> >>, <<"itv", 2, 2>>, <<"vec", <<-1, 0, 1, 3>> >>}
        ELSE {<<"itv", 1, 3>>, <<"itv", -2, 2>>, <<"vec", <<-2, 0, 2>> >>, <<"itv", 0, 1>>}
DomGoals == {<<"dom", v, d>> : v \in VarsUsed, d \in Doms}
            \cup {<<"dom", TCons(X, TCons(Y, Nil)), d>> : d \in {<<"itv", 1, 3>>, <<"itv", -2, 2>>}}

Arith == {<<k, u, v, w>> : k \in {"plusfd", "minusfd", "timesfd"}, u \in Ops, v \in Ops, w \in Ops}
Binary == {<<k, u, v>> : k \in {"ltefd", "ltfd", "neqfd"}, u \in Ops, v \in Ops}
Distinct == {<<"distinctfd", TCons(X, TCons(Y, Nil))>>, <<"distinctfd", TCons(X, TCons(N(2), TCons(Y, Nil)))>>}
            \cup (IF NVars = 3 THEN {<<"distinctfd", TCons(X, TCons(Y, TCons(Z, Nil)))>>} ELSE {})
ConsGoals == Arith \cup Binary \cup Distinct
(* when two constraints are posted, the second comes from a reduced alphabet *)
ConsSmall == {<<"plusfd", X, Y, N(2)>>, <<"plusfd", X, X, Y>>, <<"minusfd", X, Y, Y>>, <<"timesfd", X, Y, N(2)>>,
              <<"timesfd", X, X, Y>>, <<"ltefd", X, Y>>, <<"ltfd", Y, X>>, <<"neqfd", X, Y>>, <<"neqfd", X, N(2)>>,
              <<"distinctfd", TCons(X, TCons(Y, Nil))>>, <<"ltefd", N(2), X>>, <<"plusfd", N(2), Y, X>>}
EqGoals == {<<"eq", X, Y>>, <<"eq", X, N(2)>>, <<"eq", TCons(X, TCons(Y, Nil)), TCons(Y, TCons(N(2), Nil))>>}

IsDom(g) == g[1] = "dom"
IsEq(g) == g[1] = "eq"
IsCons(g) == ~IsDom(g) /\ ~IsEq(g)
CountP(p, Test(_)) == Cardinality({i \in 1..Len(p) : Test(p[i])})
DomVarsOf(g) == IF g[2][1] = "cons" THEN {X, Y} ELSE {g[2]}
Dommed(p) == UNION {DomVarsOf(p[i]) : i \in {j \in 1..Len(p) : IsDom(p[j])}}

FdGoalsAfter(p) ==
  {g \in DomGoals : DomVarsOf(g) \cap Dommed(p) = {}}
  \cup (IF CountP(p, IsCons) = 0 THEN ConsGoals
        ELSE IF CountP(p, IsCons) < MaxCons THEN ConsSmall ELSE {})
  \cup (IF CountP(p, IsEq) < MaxEq THEN EqGoals ELSE {})

Win == -3..3
FdVals == IF NVars = 2 THEN {(X :> N(a)) @@ (Y :> N(b)) : a \in Win, b \in Win}
          ELSE {(X :> N(a)) @@ (Y :> N(b)) @@ (Z :> N(c)) : a \in Win, b \in Win, c \in Win}

-----------------------------------------------------------------------------
(* C16/C17: labelling from the current store returns exactly the solutions, each once.
   Only meaningful when every variable has been given a domain or a value (otherwise
   verify_all_bound panics: the program is not well-formed). *)
AllDommed == \A v \in VarsUsed : v \in Dommed(posted) \/ IsNum(Walk(v, S.smap))
QList == ListOf(SetToSeq(VarsUsed))
LabelExact ==
  (S.ok /\ AllDommed) =>
     LET labelled == EnforceFd(QList, S @@ [next |-> 1000])
         tuples == [i \in 1..Len(labelled) |-> [v \in VarsUsed |-> WalkStar(v, labelled[i].smap)]]
         sols == {val \in FdVals : AllSat(val)}
     IN /\ \A i \in 1..Len(tuples) : tuples[i] \in sols
        /\ Len(tuples) = Cardinality(sols)
        /\ \A i, j \in 1..Len(tuples) : i # j => tuples[i] # tuples[j]
=============================================================================
