------------------------------- MODULE MC_Live -------------------------------
(* Scopes for LiveMC: disjunctions of labelled branches. *)
EXTENDS LiveMC

LabelSet == {"b1", "b2", "b3"}
Lf(b) == <<"leaf", b>>
Always == <<"always">>
Never == <<"never">>
Two == <<"conde", << << <<"succeed">> >>, << <<"succeed">> >> >> >>   \* a goal with two answers
LoopP == <<"loop", << << <<"leaf", "x">> >> >> >>                       \* an anyo producer (grows)

(* a relation that diverges without answers and without growing: spin() :- spin() *)
SpinDefs == [spin |-> [params |-> <<>>, locals |-> <<>>, body |-> << <<"call", "spin", <<>> >> >>]]
Spin == <<"call", "spin", <<>> >>
DfsSpin == <<"dfs", << <<Spin>> >> >>          \* a depth-first block that never answers
DfsCondSpin(b) == <<"dfs", << << <<"cond", << <<Spin>>, <<Lf(b)>> >> >> >> >> >>  \* a depth-first disjunction whose first clause never answers
TwoD == <<"cond", << << <<"succeed">> >>, << <<"succeed">> >> >> >>
DfsTwo(b) == <<"dfs", << <<TwoD, Lf(b)>> >> >>  \* a depth-first block with two labelled answers

(* a branch = a prefix of goals followed by its label *)
FinPrefixes == {<<>>, <<Two>>, <<Always>>, <<Never>>, << <<"fresh", <<>>, <<Always>> >> >>}
AllPrefixes == FinPrefixes \cup {<<LoopP>>, <<LoopP, Two>>}

BranchOf(pre, b) == pre \o <<Lf(b)>>

Conde2(P) == {<<"conde", <<BranchOf(p1, "b1"), BranchOf(p2, "b2")>> >> : p1 \in P, p2 \in P}
Conde3(P) == {<<"conde", <<BranchOf(p1, "b1"), BranchOf(p2, "b2"), BranchOf(p3, "b3")>> >> :
                 p1 \in P, p2 \in P, p3 \in {<<>>, <<Always>>, <<Never>>}}
(* nested: the second branch is itself a disjunction *)
Nested(P) == {<<"conde", <<BranchOf(p1, "b1"),
                           << <<"conde", <<BranchOf(p2, "b2"), BranchOf(p3, "b3")>> >> >> >> >> :
                 p1 \in P, p2 \in P, p3 \in {<<>>, <<Always>>, <<Never>>}}
(* under a conjunction and inside anyo *)
Under(P) == {<<"conj", <<Two, g>> >> : g \in Conde2(P)}

(* depth-first blocks as direct disjuncts of an interleaving disjunction *)
WithDfs(P) == {<<"conde", << <<DfsSpin>>, BranchOf(p, "b2") >> >> : p \in P}
              \cup {<<"conde", << BranchOf(p, "b1"), <<DfsSpin>> >> >> : p \in P}
              \cup {<<"conde", << <<DfsSpin>>, BranchOf(p, "b2"), BranchOf(q, "b3") >> >> : p \in P, q \in {<<>>, <<Always>>}}
              \cup {<<"conde", << <<DfsTwo("b1")>>, <<DfsSpin>>, BranchOf(p, "b3") >> >> : p \in P}
              \cup {<<"conde", << BranchOf(<<Spin>>, "b1"), BranchOf(p, "b2") >> >> : p \in P}
              (* a disjunction with ONE clause that never answers, as a disjunct (no eager run to the first answer) *)
              \cup {<<"conde", << << <<"conde", << <<Never>> >> >> >>, BranchOf(p, "b2") >> >> : p \in P}
              \cup {<<"conde", << BranchOf(p, "b1"), << <<"conde", << <<Spin>> >> >> >> >> >> : p \in P}
              \cup {<<"conde", << <<DfsCondSpin("x")>>, BranchOf(p, "b2") >> >> : p \in P}
              \cup {<<"conde", << BranchOf(p, "b1"), <<DfsCondSpin("x")>>, BranchOf(<<>>, "b3") >> >> : p \in P}
FinScope == Conde2(FinPrefixes) \cup Conde3(FinPrefixes) \cup Nested(FinPrefixes) \cup Under(FinPrefixes)
            \cup WithDfs(FinPrefixes)
(* a disjunction whose FIRST branch succeeds at once and whose rest is still lazy (always, conde { true, fresh.. }),
   followed by a goal: the continuations of its answers must be interleaved, also when the continuation of the
   first answer never ends *)
TrueFirst == <<"conde", << << <<"succeed">> >>, << <<"fresh", <<>>, << <<"succeed">> >> >> >> >> >>
UnderLazyTail(P) == {<<"conj", <<h, g>> >> : h \in {Always, TrueFirst}, g \in Conde2(P)}
GrowScope == Conde2(AllPrefixes) \cup Nested(AllPrefixes) \cup UnderLazyTail({<<>>, <<Never>>, <<Always>>})
             \cup {<<"loop", << <<g>> >> >> : g \in Conde2({<<>>, <<Two>>})}

(* thorough tier: more prefixes, three full branches, two levels of nesting *)
FinPrefixesT == FinPrefixes \cup {<<Two, Two>>, <<Two, Always>>, <<Always, Two>>, << <<"fresh", <<>>, <<Never>> >> >>,
                                  << <<"fresh", <<>>, <<Two>> >>, Always>>}
AllPrefixesT == AllPrefixes \cup {<<Two, LoopP>>, <<LoopP, Always>>}
Conde3T(P) == {<<"conde", <<BranchOf(p1, "b1"), BranchOf(p2, "b2"), BranchOf(p3, "b3")>> >> : p1 \in P, p2 \in P, p3 \in P}
Nested2(P) == {<<"conde", << << <<"conde", <<BranchOf(p1, "b1"), << <<"conde", << <<Never>>, BranchOf(p2, "b2") >> >> >> >> >> >>,
                             BranchOf(p3, "b3") >> >> : p1 \in P, p2 \in P, p3 \in P}
FinScopeT == Conde2(FinPrefixesT) \cup Conde3T(FinPrefixes) \cup Nested(FinPrefixesT) \cup Under(FinPrefixesT)
             \cup WithDfs(FinPrefixesT) \cup Nested2(FinPrefixes)
GrowScopeT == Conde2(AllPrefixesT) \cup Nested(AllPrefixesT) \cup Conde3T({<<>>, <<Two>>, <<LoopP>>, <<Never>>})
              \cup {<<"loop", << <<g>> >> >> : g \in Conde2({<<>>, <<Two>>, <<Always>>})}

(* the branches of a case, by label: the goal list of the branch as a conjunction *)
RECURSIVE BranchesOf(_)
BranchesOf(g) ==
  IF g[1] = "conde" THEN
     LET RECURSIVE Go(_)
         Go(i) == IF i > Len(g[2]) THEN [x \in {} |-> x]
                  ELSE LET cl == g[2][i]
                           last == cl[Len(cl)]
                       IN IF last[1] = "leaf" /\ last[2] \in LabelSet
                          THEN (last[2] :> <<"conj", cl>>) @@ Go(i + 1)
                          ELSE IF last[1] = "dfs" /\ last[2][1][Len(last[2][1])][1] = "leaf"
                          THEN (last[2][1][Len(last[2][1])][2] :> <<"conj", cl>>) @@ Go(i + 1)
                          ELSE IF cl[1][1] = "conde" THEN BranchesOf(cl[1]) @@ Go(i + 1)
                          ELSE Go(i + 1)
     IN Go(1)
  ELSE IF g[1] = "conj" THEN
     (* h, conde { A, B } is conde { [h, A], [h, B] }: a branch on its own runs behind the same prefix *)
     LET inner == BranchesOf(g[2][Len(g[2])])
         pre == SubSeq(g[2], 1, Len(g[2]) - 1)
     IN [b \in DOMAIN inner |-> <<"conj", pre \o <<inner[b]>> >>]
  ELSE IF g[1] = "loop" THEN BranchesOf(g[2][1][1])
  ELSE [x \in {} |-> x]
=============================================================================
