------------------------------- MODULE Store -------------------------------
(***************************************************************************)
(* One constraint store of proto-vulcan and its critical sections.         *)
(*                                                                         *)
(*   specification operator      Rust                                      *)
(*   --------------------------  ----------------------------------------- *)
(*   UnifyRec                    unify_rec, unify_rec_compound             *)
(*                                 (src/state/unification.rs)              *)
(*   Unify, Disunify             State::unify, State::disunify             *)
(*   ProcessExtension            State::process_extension{,_diseq,_fd,_user}*)
(*   RunConstraints, RunOne      State::run_constraints, Constraint::run   *)
(*   WithConstraint              State::with_constraint +                  *)
(*                                 ConstraintStore::push_and_normalize     *)
(*   TakeConstraint              State::take_constraint                    *)
(*   Run_neq, Subsumes           DisequalityConstraint::run / subsumes     *)
(*                                 (src/relation/diseq.rs)                 *)
(*   ProcessDomain ... Run_*fd   src/state/mod.rs, src/relation/clpfd/*.rs *)
(*   Run_plusz, Run_timesz       src/relation/clpz/*.rs                    *)
(*                                                                         *)
(* The module specifies the INTENDED design: where the pinned code deviates*)
(* (DESIGN.md section 8) the operator here has the corrected behaviour and *)
(* the comment says so.                                                    *)
(*                                                                         *)
(* A store is a record                                                     *)
(*   [ok, smap, cs, ds, u, k]                                              *)
(* ok    - FALSE once an operation returned Err(())                        *)
(* smap  - triangular substitution (function variable -> term)             *)
(* cs    - set of constraints: <<"neq", f>> (f: bindings that must not all *)
(*         hold), <<"ltefd",u,v>>, <<"plusfd",u,v,w>>, ...                 *)
(* ds    - function variable -> finite set of integers                     *)
(* u     - instrumented user state [with, take, exts, trail]               *)
(* k     - schedule index: which permutation of the constraint snapshot    *)
(*         run_constraints iterates in (the code iterates a HashSet)       *)
(***************************************************************************)
EXTENDS Terms, SequencesExt

InitUser == [with |-> 0, take |-> 0, exts |-> <<>>, trail |-> <<>>]
InitStore(k) == [ok |-> TRUE, smap |-> EmptyMap, cs |-> {}, ds |-> EmptyMap,
                 u |-> InitUser, k |-> k]
Failed(S) == [S EXCEPT !.ok = FALSE]

(* k-th permutation (Lehmer code) of a sequence; k = 0 is the identity *)
RECURSIVE PermSeq(_, _)
PermSeq(seq, k) ==
  IF Len(seq) = 0 THEN <<>>
  ELSE LET n == Len(seq)
           i == (k % n) + 1
       IN <<seq[i]>> \o PermSeq(SubSeq(seq, 1, i - 1) \o SubSeq(seq, i + 1, n), k \div n)

OrderOf(set, k) == PermSeq(SetToSeq(set), k)

-----------------------------------------------------------------------------
(* Unification.  st = [ok, s, ext]: s is the substitution being extended,
   ext the bindings added by this call (the `extension` SMap). *)

UFail(st) == [st EXCEPT !.ok = FALSE]
UBind(st, x, t) == [st EXCEPT !.s = Ext(st.s, x, t), !.ext = Ext(st.ext, x, t)]
UInit(s) == [ok |-> TRUE, s |-> s, ext |-> EmptyMap]

RECURSIVE UnifyRec(_, _, _)
UnifyRec(u, v, st) ==
  IF ~st.ok THEN st
  ELSE
  LET uw == Walk(u, st.s)
      vw == Walk(v, st.s)
  IN
  IF IsVar(uw) /\ IsVar(vw) /\ uw = vw THEN st
  ELSE IF IsVar(uw) THEN (IF Occurs(uw, vw, st.s) THEN UFail(st) ELSE UBind(st, uw, vw))
  ELSE IF IsVar(vw) THEN (IF Occurs(vw, uw, st.s) THEN UFail(st) ELSE UBind(st, vw, uw))
  ELSE IF IsAtom(uw) THEN (IF IsAtom(vw) /\ uw[1] = vw[1] /\ uw[2] = vw[2] THEN st ELSE UFail(st))
  ELSE IF uw[1] = "nil" THEN (IF vw[1] = "nil" THEN st ELSE UFail(st))
  ELSE IF uw[1] = "cons" THEN
         (IF vw[1] = "cons" THEN UnifyRec(uw[3], vw[3], UnifyRec(uw[2], vw[2], st)) ELSE UFail(st))
  ELSE IF uw[1] = "cmp" THEN
         (* same compound type, same number of children, children pairwise *)
         (IF vw[1] = "cmp" /\ uw[2] = vw[2] /\ Len(uw[3]) = Len(vw[3])
          THEN LET RECURSIVE Go(_, _)
                   Go(i, a) == IF i > Len(uw[3]) THEN a ELSE Go(i + 1, UnifyRec(uw[3][i], vw[3][i], a))
               IN Go(1, st)
          ELSE UFail(st))
  ELSE UFail(st)

(* unify every binding x = f[x] of a function f *)
UnifyPairs(f, st) ==
  LET keys == SetToSeq(DOMAIN f)
      RECURSIVE Go(_, _)
      Go(i, a) == IF i > Len(keys) THEN a ELSE Go(i + 1, UnifyRec(keys[i], f[keys[i]], a))
  IN Go(1, st)

-----------------------------------------------------------------------------
(* Disequality constraints *)

(* a |= b : constraint b is redundant in the presence of a
   (DisequalityConstraint::subsumes, a = self, b = other) *)
Subsumes(a, b) ==
  LET r == UnifyPairs(a[2], UInit(b[2])) IN r.ok /\ DOMAIN r.ext = {}

(* State::with_constraint + push_and_normalize.
   CORRECTED w.r.t. the pinned code (DESIGN 8 items 1, 2): when a stored disequality
   already implies the new one the new one is not inserted (the pinned code drops the
   stored, stronger one instead), and every constraint dropped by normalisation is
   reported to the user hook as taken. *)
WithConstraint(S, c) ==
  IF c[1] = "neq" THEN
    IF \E d \in S.cs : d[1] = "neq" /\ Subsumes(d, c)
    THEN [S EXCEPT !.u.with = @ + 1, !.u.take = @ + 1]
    ELSE LET dropped == {d \in S.cs : d[1] = "neq" /\ Subsumes(c, d)} IN
         [S EXCEPT !.cs = (@ \ dropped) \cup {c},
                   !.u.with = @ + 1, !.u.take = @ + Cardinality(dropped)]
  ELSE IF c \in S.cs THEN [S EXCEPT !.u.with = @ + 1, !.u.take = @ + 1]
  ELSE [S EXCEPT !.cs = @ \cup {c}, !.u.with = @ + 1]

TakeConstraint(S, c) == [S EXCEPT !.cs = @ \ {c}, !.u.take = @ + 1]

(* DisequalityConstraint::run on a store from which c has been taken *)
Run_neq(c, S) ==
  LET r == UnifyPairs(c[2], UInit(S.smap)) IN
  IF ~r.ok THEN S                          (* can never be violated any more: dropped *)
  ELSE IF DOMAIN r.ext = {} THEN Failed(S) (* violated *)
  ELSE WithConstraint(S, <<"neq", r.ext>>)

-----------------------------------------------------------------------------
(* Finite domains and CLP(FD)/CLP(Z) propagators *)

HasDom(S, x) == IsVar(x) /\ x \in DOMAIN S.ds
SMin(D) == CHOOSE m \in D : \A e \in D : m <= e
SMax(D) == CHOOSE m \in D : \A e \in D : e <= m
DropKey(f, k) == [x \in (DOMAIN f) \ {k} |-> f[x]]

(* the value set an FD operand currently stands for: its domain, a singleton for a number,
   or "none" (represented by the empty set) when it is an unbound variable without domain
   or a non-numeric term *)
RECURSIVE RunConstraints(_)
RECURSIVE RunOne(_, _)
RECURSIVE ProcessDomain(_, _, _)

(* State::resolve_storable_domain *)
ResolveStorableDomain(S, x, D) ==
  IF Cardinality(D) = 1
  THEN RunConstraints([S EXCEPT !.smap = Ext(@, x, Num(CHOOSE n \in D : TRUE)),
                                !.ds = DropKey(@, x)])
  ELSE [S EXCEPT !.ds = Ext(@, x, D)]

(* State::process_domain(x, D): x must already be walked *)
ProcessDomain(S, x, D) ==
  IF ~S.ok THEN S
  ELSE IF IsVar(x) THEN
         LET D1 == IF x \in DOMAIN S.ds THEN S.ds[x] \cap D ELSE D IN
         IF D1 = {} THEN Failed(S) ELSE ResolveStorableDomain(S, x, D1)
  ELSE IF IsNum(x) THEN (IF x[2] \in D THEN S ELSE Failed(S))
  ELSE Failed(S)

OpDom(S, w) == IF IsNum(w) THEN {w[2]} ELSE IF HasDom(S, w) THEN S.ds[w] ELSE {}

(* Bounds propagation for w = u (+) v style constraints is described by the three
   interval filters the code applies, in the code's order (w, u, v).
   CORRECTED w.r.t. the pinned code (DESIGN 8 item 6): operands are re-walked before each
   filter, so a filter that binds an operand (singleton domain) is seen by the next one,
   and the constraint is re-examined after its own filters when an operand got bound. *)
Itv(lo, hi) == lo..hi

Run_arith(c, S, Wf(_, _, _, _), Uf(_, _, _, _), Vf(_, _, _, _), Holds(_, _, _)) ==
  LET uw == Walk(c[2], S.smap)
      vw == Walk(c[3], S.smap)
      ww == Walk(c[4], S.smap)
  IN
  IF IsNum(uw) /\ IsNum(vw) /\ IsNum(ww)
  THEN (IF Holds(uw[2], vw[2], ww[2]) THEN S ELSE Failed(S))
  ELSE
  LET DU == OpDom(S, uw)  DV == OpDom(S, vw)  DW == OpDom(S, ww) IN
  IF DU = {} \/ DV = {} \/ DW = {} THEN WithConstraint(S, c)
  ELSE
    LET S1 == ProcessDomain(S, ww, Wf(SMin(DU), SMax(DU), SMin(DV), SMax(DV)))
        u1 == IF S1.ok THEN Walk(c[2], S1.smap) ELSE uw
        S2 == IF S1.ok
              THEN LET DV1 == OpDom(S1, Walk(c[3], S1.smap))
                       DW1 == OpDom(S1, Walk(c[4], S1.smap))
                   IN IF DV1 = {} \/ DW1 = {} THEN S1
                      ELSE ProcessDomain(S1, u1, Uf(SMin(DW1), SMax(DW1), SMin(DV1), SMax(DV1)))
              ELSE S1
        v2 == IF S2.ok THEN Walk(c[3], S2.smap) ELSE vw
        S3 == IF S2.ok
              THEN LET DU2 == OpDom(S2, Walk(c[2], S2.smap))
                       DW2 == OpDom(S2, Walk(c[4], S2.smap))
                   IN IF DU2 = {} \/ DW2 = {} THEN S2
                      ELSE ProcessDomain(S2, v2, Vf(SMin(DW2), SMax(DW2), SMin(DU2), SMax(DU2)))
              ELSE S2
    IN
    IF ~S3.ok THEN S3
    ELSE
      LET u3 == Walk(c[2], S3.smap)  v3 == Walk(c[3], S3.smap)  w3 == Walk(c[4], S3.smap) IN
      IF IsNum(u3) /\ IsNum(v3) /\ IsNum(w3)
      THEN (IF Holds(u3[2], v3[2], w3[2]) THEN S3 ELSE Failed(S3))
      ELSE WithConstraint(S3, c)

(* plusfd: u + v = w *)
PlusW(umin, umax, vmin, vmax) == Itv(umin + vmin, umax + vmax)
PlusU(wmin, wmax, vmin, vmax) == Itv(wmin - vmax, wmax - vmin)
PlusV(wmin, wmax, umin, umax) == Itv(wmin - umax, wmax - umin)
PlusHolds(u, v, w) == u + v = w
(* minusfd: u - v = w *)
MinusW(umin, umax, vmin, vmax) == Itv(umin - vmax, umax - vmin)
MinusU(wmin, wmax, vmin, vmax) == Itv(wmin + vmin, wmax + vmax)
MinusV(wmin, wmax, umin, umax) == Itv(umin - wmax, umax - wmin)
MinusHolds(u, v, w) == u - v = w
(* timesfd: u * v = w.  CORRECTED (DESIGN 8 item 7): hull of the four corner products for w;
   the factors are only narrowed to the values that have some partner (exact support),
   which is sound for every sign combination. *)
Hull(S4) == Itv(SMin(S4), SMax(S4))
TimesW(umin, umax, vmin, vmax) == Hull({umin * vmin, umin * vmax, umax * vmin, umax * vmax})
TimesHolds(u, v, w) == u * v = w

Run_timesfd(c, S) ==
  LET uw == Walk(c[2], S.smap)
      vw == Walk(c[3], S.smap)
      ww == Walk(c[4], S.smap)
  IN
  IF IsNum(uw) /\ IsNum(vw) /\ IsNum(ww)
  THEN (IF uw[2] * vw[2] = ww[2] THEN S ELSE Failed(S))
  ELSE
  LET DU == OpDom(S, uw)  DV == OpDom(S, vw)  DW == OpDom(S, ww) IN
  IF DU = {} \/ DV = {} \/ DW = {} THEN WithConstraint(S, c)
  ELSE
    LET S1 == ProcessDomain(S, ww, TimesW(SMin(DU), SMax(DU), SMin(DV), SMax(DV))) IN
    IF ~S1.ok THEN S1
    ELSE
      LET u3 == Walk(c[2], S1.smap)  v3 == Walk(c[3], S1.smap)  w3 == Walk(c[4], S1.smap) IN
      IF IsNum(u3) /\ IsNum(v3) /\ IsNum(w3)
      THEN (IF u3[2] * v3[2] = w3[2] THEN S1 ELSE Failed(S1))
      ELSE WithConstraint(S1, c)

(* ltefd: u <= v *)
Run_ltefd(c, S) ==
  LET uw == Walk(c[2], S.smap)
      vw == Walk(c[3], S.smap)
  IN
  IF IsNum(uw) /\ IsNum(vw) THEN (IF uw[2] <= vw[2] THEN S ELSE Failed(S))
  ELSE
  LET DU == OpDom(S, uw)  DV == OpDom(S, vw) IN
  IF DU = {} \/ DV = {} THEN WithConstraint(S, c)
  ELSE
    LET S1 == ProcessDomain(S, uw, {n \in DU : n <= SMax(DV)})
        v1 == IF S1.ok THEN Walk(c[3], S1.smap) ELSE vw
        S2 == IF S1.ok
              THEN LET DU1 == OpDom(S1, Walk(c[2], S1.smap)) IN
                   IF IsNum(v1) THEN (IF SMin(DU1) <= v1[2] THEN S1 ELSE Failed(S1))
                   ELSE ProcessDomain(S1, v1, {n \in OpDom(S1, v1) : SMin(DU1) <= n})
              ELSE S1
    IN
    IF ~S2.ok THEN S2
    ELSE LET u2 == Walk(c[2], S2.smap)  v2 == Walk(c[3], S2.smap) IN
         IF IsNum(u2) /\ IsNum(v2) THEN (IF u2[2] <= v2[2] THEN S2 ELSE Failed(S2))
         ELSE IF IsNum(u2) \/ IsNum(v2) THEN S2   (* one side fixed, the other filtered: entailed *)
         ELSE WithConstraint(S2, c)

(* diseqfd: u # v over integers *)
Run_neqfd(c, S) ==
  LET uw == Walk(c[2], S.smap)
      vw == Walk(c[3], S.smap)
      DU == OpDom(S, uw)  DV == OpDom(S, vw)
  IN
  IF DU = {} \/ DV = {} THEN WithConstraint(S, c)
  ELSE IF Cardinality(DU) = 1 /\ Cardinality(DV) = 1 THEN (IF DU = DV THEN Failed(S) ELSE S)
  ELSE IF DU \cap DV = {} THEN S
  ELSE IF Cardinality(DU) = 1 THEN
         LET S1 == ProcessDomain(S, vw, DV \ DU) IN
         IF S1.ok /\ ~IsNum(Walk(c[3], S1.smap)) THEN WithConstraint(S1, c) ELSE S1
  ELSE IF Cardinality(DV) = 1 THEN
         LET S1 == ProcessDomain(S, uw, DU \ DV) IN
         IF S1.ok /\ ~IsNum(Walk(c[2], S1.smap)) THEN WithConstraint(S1, c) ELSE S1
  ELSE WithConstraint(S, c)

(* distinctfd over a list of variables and numbers: value elimination *)
Run_distinct(c, S) ==
  LET l == Walk(c[2], S.smap) IN
  IF IsVar(l) THEN WithConstraint(S, c)
  ELSE
  LET es == Elems(l)
      ws == [i \in 1..Len(es) |-> Walk(es[i], S.smap)]
      numIdx == {i \in 1..Len(ws) : IsNum(ws[i])}
      nums == {ws[i][2] : i \in numIdx}
  IN
  IF Cardinality(nums) < Cardinality(numIdx) THEN Failed(S)
  ELSE IF \A i \in 1..Len(ws) : IsNum(ws[i]) THEN S
  ELSE
    (* exclude the fixed values from every unfixed operand that has a domain *)
    LET RECURSIVE Go(_, _)
        Go(i, A) ==
          IF i > Len(ws) \/ ~A.ok THEN A
          ELSE LET x == Walk(es[i], A.smap) IN
               IF IsVar(x) /\ x \in DOMAIN A.ds
               THEN Go(i + 1, ProcessDomain(A, x, A.ds[x] \ nums))
               ELSE Go(i + 1, A)
        S1 == Go(1, S)
    IN
    IF ~S1.ok THEN S1
    ELSE
      (* a filter may have fixed further operands: look again before suspending *)
      LET ws1 == [i \in 1..Len(es) |-> Walk(es[i], S1.smap)]
          numIdx1 == {i \in 1..Len(ws1) : IsNum(ws1[i])}
          nums1 == {ws1[i][2] : i \in numIdx1}
      IN IF Cardinality(nums1) < Cardinality(numIdx1) THEN Failed(S1)
         ELSE IF numIdx1 = numIdx THEN WithConstraint(S1, c)
         ELSE RunOne(S1, c)

(* CLP(Z).  CORRECTED (DESIGN 8 item 10): ground test with the right operator, all-unbound
   operands stay suspended, timesz binds only exact quotients and never divides by zero. *)
BindZ(S, x, n) == RunConstraints([S EXCEPT !.smap = Ext(@, x, Num(n))])

Run_plusz(c, S) ==
  LET u == Walk(c[2], S.smap)  v == Walk(c[3], S.smap)  w == Walk(c[4], S.smap) IN
  IF IsNum(u) /\ IsNum(v) /\ IsNum(w) THEN (IF u[2] + v[2] = w[2] THEN S ELSE Failed(S))
  ELSE IF IsNum(u) /\ IsNum(v) /\ IsVar(w) THEN BindZ(S, w, u[2] + v[2])
  ELSE IF IsNum(u) /\ IsVar(v) /\ IsNum(w) THEN BindZ(S, v, w[2] - u[2])
  ELSE IF IsVar(u) /\ IsNum(v) /\ IsNum(w) THEN BindZ(S, u, w[2] - v[2])
  ELSE IF (IsVar(u) \/ IsNum(u)) /\ (IsVar(v) \/ IsNum(v)) /\ (IsVar(w) \/ IsNum(w))
       THEN WithConstraint(S, c)
  ELSE Failed(S)

Divides(d, n) == d # 0 /\ n % (IF d < 0 THEN -d ELSE d) = 0
Quot(n, d) == (* exact quotient, d # 0, d divides n *)
  LET an == IF n < 0 THEN -n ELSE n
      ad == IF d < 0 THEN -d ELSE d
      q == an \div ad
  IN IF (n < 0) = (d < 0) THEN q ELSE -q

Run_timesz(c, S) ==
  LET u == Walk(c[2], S.smap)  v == Walk(c[3], S.smap)  w == Walk(c[4], S.smap) IN
  IF IsNum(u) /\ IsNum(v) /\ IsNum(w) THEN (IF u[2] * v[2] = w[2] THEN S ELSE Failed(S))
  ELSE IF IsNum(u) /\ IsNum(v) /\ IsVar(w) THEN BindZ(S, w, u[2] * v[2])
  ELSE IF IsNum(u) /\ IsVar(v) /\ IsNum(w) THEN
         (IF u[2] = 0 THEN (IF w[2] = 0 THEN WithConstraint(S, c) ELSE Failed(S))
          ELSE IF Divides(u[2], w[2]) THEN BindZ(S, v, Quot(w[2], u[2])) ELSE Failed(S))
  ELSE IF IsVar(u) /\ IsNum(v) /\ IsNum(w) THEN
         (IF v[2] = 0 THEN (IF w[2] = 0 THEN WithConstraint(S, c) ELSE Failed(S))
          ELSE IF Divides(v[2], w[2]) THEN BindZ(S, u, Quot(w[2], v[2])) ELSE Failed(S))
  ELSE IF (IsVar(u) \/ IsNum(u)) /\ (IsVar(v) \/ IsNum(v)) /\ (IsVar(w) \/ IsNum(w))
       THEN WithConstraint(S, c)
  ELSE Failed(S)

-----------------------------------------------------------------------------
(* Constraint scheduling *)

RunOne(S, c) ==
  IF ~S.ok THEN S
  ELSE CASE c[1] = "neq"      -> Run_neq(c, S)
         [] c[1] = "ltefd"    -> Run_ltefd(c, S)
         [] c[1] = "plusfd"   -> Run_arith(c, S, PlusW, PlusU, PlusV, PlusHolds)
         [] c[1] = "minusfd"  -> Run_arith(c, S, MinusW, MinusU, MinusV, MinusHolds)
         [] c[1] = "timesfd"  -> Run_timesfd(c, S)
         [] c[1] = "neqfd"    -> Run_neqfd(c, S)
         [] c[1] = "distinct" -> Run_distinct(c, S)
         [] c[1] = "plusz"    -> Run_plusz(c, S)
         [] c[1] = "timesz"   -> Run_timesz(c, S)

(* State::run_constraints: snapshot, then take-and-run each constraint still stored *)
RunConstraints(S) ==
  IF ~S.ok THEN S
  ELSE
  LET order == OrderOf(S.cs, S.k)
      RECURSIVE Go(_, _)
      Go(i, A) ==
        IF i > Len(order) \/ ~A.ok THEN A
        ELSE IF order[i] \notin A.cs THEN Go(i + 1, A)
        ELSE Go(i + 1, RunOne(TakeConstraint(A, order[i]), order[i]))
  IN Go(1, S)

(* State::process_extension_fd.  CORRECTED (DESIGN 8 item 12): the binding's right-hand
   side is walked and the CURRENT domain store is consulted, so the outcome does not depend
   on the order in which the bindings of one extension are visited. *)
ProcessExtensionFd(S, ext) ==
  LET keys == OrderOf(DOMAIN ext, S.k)
      RECURSIVE Go(_, _)
      Go(i, A) ==
        IF i > Len(keys) \/ ~A.ok THEN A
        ELSE LET x == keys[i] IN
             IF x \in DOMAIN A.ds
             THEN LET D == A.ds[x]
                      A1 == [A EXCEPT !.ds = DropKey(@, x)]
                  IN Go(i + 1, RunConstraints(ProcessDomain(A1, Walk(ext[x], A1.smap), D)))
             ELSE Go(i + 1, A)
  IN Go(1, S)

ProcessExtension(S, ext) ==
  LET S1 == RunConstraints(S) IN
  IF ~S1.ok THEN S1
  ELSE LET S2 == ProcessExtensionFd(S1, ext) IN
       IF ~S2.ok THEN S2 ELSE [S2 EXCEPT !.u.exts = Append(@, ext)]

(* State::unify *)
Unify(S, u, v) ==
  IF ~S.ok THEN S
  ELSE LET r == UnifyRec(u, v, UInit(S.smap)) IN
       IF ~r.ok THEN Failed(S)
       ELSE ProcessExtension([S EXCEPT !.smap = r.s], r.ext)

(* State::disunify *)
Disunify(S, u, v) ==
  IF ~S.ok THEN S
  ELSE LET r == UnifyRec(u, v, UInit(S.smap)) IN
       IF ~r.ok THEN S
       ELSE IF DOMAIN r.ext = {} THEN Failed(S)
       ELSE WithConstraint(S, <<"neq", r.ext>>)

(* DomFd::solve *)
PostDom(S, x, D) == IF ~S.ok THEN S ELSE ProcessDomain(S, Walk(x, S.smap), D)

DomSet(d) ==
  CASE d[1] = "itv" -> Itv(d[2], d[3])
    [] d[1] = "vec" -> {d[2][i] : i \in 1..Len(d[2])}

(* Posting an atomic goal (what the goal's `solve` does with the store) *)
RECURSIVE Post(_, _)
Post(S, g) ==
  IF ~S.ok THEN S
  ELSE
  CASE g[1] = "eq"       -> Unify(S, Norm(g[2]), Norm(g[3]))
    [] g[1] = "unify"    -> Unify(S, Norm(g[2]), Norm(g[3]))
    [] g[1] = "neq"      -> Disunify(S, Norm(g[2]), Norm(g[3]))
    [] g[1] = "disunify" -> Disunify(S, Norm(g[2]), Norm(g[3]))
    [] g[1] = "dom"      ->
         LET x == Norm(g[2]) IN
         IF x[1] \in {"nil", "cons"}     (* infd over a list: one DomFd per element *)
         THEN LET es == Elems(x)
                  RECURSIVE Go(_, _)
                  Go(i, A) == IF i > Len(es) THEN A ELSE Go(i + 1, PostDom(A, es[i], DomSet(g[3])))
              IN Go(1, S)
         ELSE PostDom(S, x, DomSet(g[3]))
    [] g[1] = "ltfd"     -> Post(Post(S, <<"neqfd", g[2], g[3]>>), <<"ltefd", g[2], g[3]>>)
    [] g[1] \in {"ltefd", "neqfd"} -> RunOne(S, <<g[1], Norm(g[2]), Norm(g[3])>>)
    [] g[1] \in {"plusfd", "minusfd", "timesfd", "plusz", "timesz"} ->
         RunOne(S, <<g[1], Norm(g[2]), Norm(g[3]), Norm(g[4])>>)
    [] g[1] = "distinctfd" -> RunOne(S, <<"distinct", Norm(g[2])>>)
    [] g[1] = "succeed"  -> S
    [] g[1] = "fail"     -> Failed(S)
    [] g[1] = "leaf"     -> [S EXCEPT !.u.trail = Append(@, g[2])]

-----------------------------------------------------------------------------
(* Reference semantics: ground valuations *)

SatBindings(f, val) == \A x \in DOMAIN f : Inst(x, val) = Inst(f[x], val)

IntOf(t, val) == LET g == Inst(t, val) IN IF IsNum(g) THEN g[2] ELSE 0
IsIntAt(t, val) == IsNum(Inst(t, val))

SatConstraint(c, val) ==
  CASE c[1] = "neq"      -> ~SatBindings(c[2], val)
    [] c[1] = "ltefd"    -> IsIntAt(c[2], val) /\ IsIntAt(c[3], val) /\ IntOf(c[2], val) <= IntOf(c[3], val)
    [] c[1] = "neqfd"    -> IsIntAt(c[2], val) /\ IsIntAt(c[3], val) /\ IntOf(c[2], val) # IntOf(c[3], val)
    [] c[1] \in {"plusfd", "plusz"} ->
         IsIntAt(c[2], val) /\ IsIntAt(c[3], val) /\ IsIntAt(c[4], val)
         /\ IntOf(c[2], val) + IntOf(c[3], val) = IntOf(c[4], val)
    [] c[1] = "minusfd"  ->
         IsIntAt(c[2], val) /\ IsIntAt(c[3], val) /\ IsIntAt(c[4], val)
         /\ IntOf(c[2], val) - IntOf(c[3], val) = IntOf(c[4], val)
    [] c[1] \in {"timesfd", "timesz"} ->
         IsIntAt(c[2], val) /\ IsIntAt(c[3], val) /\ IsIntAt(c[4], val)
         /\ IntOf(c[2], val) * IntOf(c[3], val) = IntOf(c[4], val)
    [] c[1] = "distinct" ->
         LET es == Elems(Inst(c[2], val)) IN
         /\ \A i \in 1..Len(es) : IsNum(es[i])
         /\ \A i, j \in 1..Len(es) : i # j => es[i][2] # es[j][2]

(* valuations (over all variables in play) that satisfy a store *)
SatStore(S, val) ==
  /\ SatBindings(S.smap, val)
  /\ \A c \in S.cs : SatConstraint(c, val)
  /\ \A x \in DOMAIN S.ds : IsIntAt(x, val) /\ IntOf(x, val) \in S.ds[x]

RECURSIVE SatGoal(_, _)
SatGoal(g, val) ==
  CASE g[1] \in {"eq", "unify"}     -> Inst(Norm(g[2]), val) = Inst(Norm(g[3]), val)
    [] g[1] \in {"neq", "disunify"} -> Inst(Norm(g[2]), val) # Inst(Norm(g[3]), val)
    [] g[1] = "dom" ->
         LET x == Norm(g[2]) IN
         IF x[1] \in {"nil", "cons"}
         THEN \A i \in 1..Len(Elems(x)) :
                 IsIntAt(Elems(x)[i], val) /\ IntOf(Elems(x)[i], val) \in DomSet(g[3])
         ELSE IsIntAt(x, val) /\ IntOf(x, val) \in DomSet(g[3])
    [] g[1] = "ltfd" -> SatConstraint(<<"ltefd", Norm(g[2]), Norm(g[3])>>, val)
                        /\ SatConstraint(<<"neqfd", Norm(g[2]), Norm(g[3])>>, val)
    [] g[1] \in {"ltefd", "neqfd"} -> SatConstraint(<<g[1], Norm(g[2]), Norm(g[3])>>, val)
    [] g[1] \in {"plusfd", "minusfd", "timesfd", "plusz", "timesz"} ->
         SatConstraint(<<g[1], Norm(g[2]), Norm(g[3]), Norm(g[4])>>, val)
    [] g[1] = "distinctfd" -> SatConstraint(<<"distinct", Norm(g[2])>>, val)
    [] g[1] = "succeed" -> TRUE
    [] g[1] = "fail" -> FALSE
    [] g[1] = "leaf" -> TRUE

-----------------------------------------------------------------------------
(* Symbolic equivalence of two tree stores (flow C).  Exact over an infinite Herbrand
   universe: the substitutions unify each other's bindings without extension, and every
   disequality of either side is implied by one of the other side (independence of
   negated equations), each taken under its own substitution. *)

NeqUnder(c, s) ==   (* the constraint seen through substitution s: its residual, or a verdict *)
  LET r == UnifyPairs(c[2], UInit(s)) IN
  IF ~r.ok THEN <<"true">> ELSE IF DOMAIN r.ext = {} THEN <<"false">> ELSE <<"neq", r.ext>>

ImpliedBy(c, cs, s) ==  (* c follows from smap s and the disequalities cs *)
  LET cn == NeqUnder(c, s) IN
  \/ cn[1] = "true"
  \/ /\ cn[1] = "neq"
     /\ \E d \in cs : d[1] = "neq" /\
           LET dn == NeqUnder(d, s) IN dn[1] = "false" \/ (dn[1] = "neq" /\ Subsumes(dn, cn))

SmapEntails(s1, s2) ==  (* every binding of s2 holds under s1 *)
  LET r == UnifyPairs(s2, UInit(s1)) IN r.ok /\ DOMAIN r.ext = {}

TreeStoreEquiv(A, B) ==
  /\ SmapEntails(A.smap, B.smap) /\ SmapEntails(B.smap, A.smap)
  /\ \A c \in {x \in A.cs : x[1] = "neq"} : ImpliedBy(c, B.cs, B.smap)
  /\ \A c \in {x \in B.cs : x[1] = "neq"} : ImpliedBy(c, A.cs, A.smap)

=============================================================================
