------------------------------- MODULE Judge -------------------------------
(***************************************************************************)
(* Flow C: trace validation.  Reads the observation records written by the *)
(* harness (one JSON object per line, IOEnv.OBS) and checks them against   *)
(* the specification.  One TLC step consumes one record:                   *)
(*                                                                         *)
(*   reset     (re)initialises the specification state for a new case      *)
(*   store_op  the specification takes the same step (Post) and the        *)
(*             recorded store must be equivalent to the specification's    *)
(*   probe / final   store seen inside a running program                   *)
(*   answer / state  collected                                             *)
(*   end       the collected answers are compared with the specification's *)
(*             answers for the case; termination / panic expectations      *)
(*                                                                         *)
(* The judge is TOTAL: a record the specification does not allow appends   *)
(* [case, record index, reason] to `rej` (each reason once per case) and   *)
(* checking goes on, so one rejection never hides the rest of the file.    *)
(***************************************************************************)
EXTENDS Lib, FDom, LTermOps, IOUtils

Obs == ndJsonDeserialize(IOEnv.OBS)

VARIABLES l,      \* index of the next record
          cur,    \* the current case (record of the reset line)
          S,      \* specification store of a `store` case
          prevI,  \* previously recorded implementation store of a `store` case
          posted, \* operations of a `store` case that succeeded so far
          got,    \* answers / states recorded so far for the current case
          fin,    \* stores recorded by the final probe
          rej,    \* rejections
          seen,   \* reasons already recorded for the current case
          nok,    \* number of cases accepted
          eng,    \* specification stream of a solver case that records engine events
          hist    \* results of the earlier cases of the current group (cases that carry the
                  \* same "group" field are consecutive; the last one names the check)
vars == <<l, cur, S, prevI, posted, got, fin, rej, seen, nok, hist, eng>>

NoCase == [id |-> "none", kind |-> "none"]

Init == /\ l = 1 /\ cur = NoCase /\ S = InitK(0) /\ prevI = InitK(0) /\ posted = <<>>
        /\ got = <<>> /\ fin = <<>> /\ rej = <<>> /\ seen = {} /\ nok = 0 /\ hist = <<>> /\ eng = <<"empty">>

-----------------------------------------------------------------------------
(* JSON -> specification values *)

NeqOfJson(c) == <<"neq", MapOfPairs(c[2])>>
ConstraintOfJson(c) ==
  IF c[1] = "neq" THEN NeqOfJson(c)
  ELSE IF c[1] = "distinct2" THEN <<"distinct", ListOf(c[2])>>
  ELSE <<c[1]>> \o c[2]

StoreOfJson(js) ==
  [ok |-> TRUE,
   smap |-> MapOfPairs(js.smap),
   cs |-> {ConstraintOfJson(js.cs[i]) : i \in 1..Len(js.cs)},
   ds |-> [k \in {js.ds[i][1] : i \in 1..Len(js.ds)} |->
              LET d == js.ds[CHOOSE i \in 1..Len(js.ds) : js.ds[i][1] = k][2]
              IN {d[j] : j \in 1..Len(d)}],
   u |-> [with |-> js.u.with, take |-> js.u.take, trail |-> js.u.trail,
          exts |-> [i \in 1..Len(js.u.exts) |-> MapOfPairs(js.u.exts[i])]],
   k |-> 0, next |-> 0, ncs |-> Len(js.cs)]

(* The answer record of the implementation, renamed canonically.  A reported disequality
   that mentions a variable which does not occur in the answer is a C03 matter
   (AnswerReason); for the DENOTATION of the answer such a variable is existentially
   quantified and, being unbound, can always be chosen so that the disequality holds, so the
   constraint does not restrict the answer's instances and is left out here. *)
ImplAnswer(a) ==
  LET vs == VarSeq(ListOf(a.q))
      ren == AnyRen(vs)
      neqs == {NeqOfJson(a.cs[i]) : i \in {j \in 1..Len(a.cs) : a.cs[j][1] = "neq"}}
  IN [q |-> [i \in 1..Len(a.q) |-> Inst(a.q[i], ren)],
      cs |-> {RenNeq(c, ren) : c \in {d \in neqs : NeqVars(d) \subseteq DOMAIN ren}}]

-----------------------------------------------------------------------------
(* Per-record acceptance predicates; each yields "" (accepted) or a reason. *)

(* the set of reasons that apply ("" = this clause is satisfied) *)
FirstReason(rs) == {rs[i] : i \in 1..Len(rs)} \ {""}
One(r) == IF r = "" THEN {} ELSE {r}

(* C22 at a recorded store *)
BalanceReason(I) == IF I.u.with - I.u.take = I.ncs THEN "" ELSE "hook_balance"

(* suspended CLP(Z) constraints, operands resolved through the store's own substitution *)
ZSetOf(A) == {<<c[1], Walk(c[2], A.smap), Walk(c[3], A.smap), Walk(c[4], A.smap)>> :
                 c \in {d \in A.cs : d[1] \in {"plusz", "timesz"}}}

(* store_op of an FD case ("fd" flag): any propagation strength is accepted, but no solution
   of what has been posted may be lost, and failure must be justified *)
FdCaseVals == [{V(cur.vars[i]) : i \in 1..Len(cur.vars)} -> {Num(n) : n \in cur.win[1]..cur.win[2]}]
FdStoreOpReason(rec, I) ==
  LET now == Append(posted, rec.op)
      SatAll(ops, val) == \A i \in 1..Len(ops) : SatGoal(ops[i], val)
  IN FirstReason(<<
       IF rec.ok /\ \E val \in FdCaseVals : SatAll(now, val) /\ ~SatStore(I, val) THEN "fd_solution_lost" ELSE "",
       IF ~rec.ok /\ \E val \in FdCaseVals : SatAll(now, val) THEN "fd_wrong_failure" ELSE "",
       IF Acyclic(I.smap) THEN "" ELSE "cyclic_substitution",
       BalanceReason(I)
     >>)

(* store_op: the specification takes the same step *)
StoreOpReason(rec, Snext, specOk, I) ==
  FirstReason(<<
    IF rec.ok = specOk THEN "" ELSE (IF specOk THEN "spurious_failure" ELSE "spurious_success"),
    IF Acyclic(I.smap) THEN "" ELSE "cyclic_substitution",
    IF ~Acyclic(I.smap) \/ TreeStoreEquiv(Snext, I) THEN "" ELSE "store_not_equivalent",
    IF ~Acyclic(I.smap) \/ ZSetOf(Snext) = ZSetOf(I) THEN "" ELSE "z_constraints_differ",
    BalanceReason(I),
    (* process_extension saw exactly the new bindings of a successful unification: a subset of
       the bindings added by this step (constraint propagation may add more), as many as the
       specification's unification adds *)
    IF rec.op[1] \in {"unify", "eq"} /\ rec.ok
    THEN (IF Len(I.u.exts) = Len(prevI.u.exts) + 1
             /\ LET e == I.u.exts[Len(I.u.exts)] IN
                /\ {<<x, e[x]>> : x \in DOMAIN e}
                     \subseteq {<<x, I.smap[x]>> : x \in DOMAIN I.smap} \ {<<x, prevI.smap[x]>> : x \in DOMAIN prevI.smap}
                /\ (~specOk \/ Cardinality(DOMAIN e) = Cardinality(DOMAIN Snext.u.exts[Len(Snext.u.exts)]))
          THEN "" ELSE "extension_mismatch")
    ELSE (IF Len(I.u.exts) = Len(prevI.u.exts) THEN "" ELSE "extension_on_failure"),
    IF rec.ok \/ (I.smap = prevI.smap /\ I.cs = prevI.cs /\ I.ds = prevI.ds) THEN "" ELSE "failure_changed_store"
  >>)

(* C03 on one recorded answer.  "A constraint on variable v" is read the way the library
   reads it: v is an operand of the disequality - a key, or a right-hand side that is itself
   a variable (the weaker reading; a judge must not demand more than the property states). *)
NeqOperands(c) == (DOMAIN c[2]) \cup {c[2][x] : x \in {y \in DOMAIN c[2] : IsVar(c[2][y])}}
AnswerReason(a) ==
  LET qv == UNION {VarsOf(a.q[i]) : i \in 1..Len(a.q)}
      neqs == {NeqOfJson(a.cs[i]) : i \in {j \in 1..Len(a.cs) : a.cs[j][1] = "neq"}}
      RelOf(i) == {c \in neqs : NeqOperands(c) \cap VarsOf(a.q[i]) # {}}
      Got(i) == {NeqOfJson(a.rel[i][j]) : j \in {n \in 1..Len(a.rel[i]) : a.rel[i][n][1] = "neq"}}
  IN FirstReason(<<
       IF \A v \in qv : v[1] = "any" THEN "" ELSE "answer_not_reified",
       IF \A c \in neqs : NeqVars(c) \subseteq qv THEN "" ELSE "constraint_mentions_unreified_variable",
       IF \A i \in 1..Len(a.q) :
            RelOf(i) \subseteq Got(i) /\ Got(i) \subseteq neqs /\ a.con[i] = (Len(a.rel[i]) > 0)
       THEN "" ELSE "relevant_constraints_incomplete"
     >>)

Fuel == IF "fuel" \in DOMAIN cur THEN cur.fuel ELSE 12

Flag(name) == name \in DOMAIN cur /\ cur[name]
IsQueryCase == "mode" \in DOMAIN cur /\ cur.mode = "query"

(* comparison of an emission sequence `impl` with the reference `spec` (both sequences of
   the same kind of value, Eq an equivalence on it) *)
SeqReasons(spec, cut, impl, Eq(_, _), rec) ==
  IF cut
  THEN (* infinitely many (or too many) answers: every recorded answer is an answer *)
       One(IF \A i \in 1..Len(impl) : \E j \in 1..Len(spec) : Eq(impl[i], spec[j])
           THEN "" ELSE "invented_answer")
  ELSE
  FirstReason(<<
    IF rec.kind = "exhausted" \/ (rec.kind = "take" /\ Len(impl) <= Len(spec)) THEN "" ELSE "did_not_terminate",
    IF \A i \in 1..Len(impl) : \E j \in 1..Len(spec) : Eq(impl[i], spec[j])
    THEN "" ELSE "invented_answer",
    IF rec.kind # "exhausted" \/ \A j \in 1..Len(spec) : \E i \in 1..Len(impl) : Eq(impl[i], spec[j])
    THEN "" ELSE "missing_answer",
    IF rec.kind # "exhausted" \/ BagEquiv(spec, impl, Eq) THEN "" ELSE "wrong_multiplicity",
    IF ~Flag("ordered") \/ IsQueryCase \/ (Len(impl) <= Len(spec) /\ \A i \in 1..Len(impl) : Eq(impl[i], spec[i]))
    THEN "" ELSE "wrong_order",
    IF \A i \in 1..Len(rec.after) : rec.after[i] THEN "" ELSE "not_fused"
  >>)

(* C05 at the query boundary: block i of the implementation's answers is a permutation (a part, for
   the last block reached) of the labelled answers of the body's i-th answer *)
BlockOrdered(impl, answers, blen, Eq(_, _)) ==
  LET CountEq(seq, x) == Cardinality({j \in 1..Len(seq) : Eq(seq[j], x)})
      RECURSIVE Go(_, _, _)
      Go(i, pos, base) ==
        IF pos > Len(impl) THEN TRUE
        ELSE IF i > Len(blen) THEN FALSE
        ELSE LET n == blen[i]
                 hi == IF pos + n - 1 < Len(impl) THEN pos + n - 1 ELSE Len(impl)
                 seg == SubSeq(impl, pos, hi)
                 blk == SubSeq(answers, base + 1, base + n)
             IN (\A j \in 1..Len(seg) : CountEq(seg, seg[j]) <= CountEq(blk, seg[j])) /\ Go(i + 1, pos + n, base + n)
  IN Go(1, 1, 0)

(* end of a query case: answers against the reference semantics *)
QueryEndReason(rec) ==
  IF rec.kind = "toolerr" THEN {"tool_error"}
  ELSE IF rec.kind = "panic" THEN {"panic"}
  ELSE IF rec.kind = "budget" THEN {"budget_exhausted"}
  ELSE
  IF "lib" \in DOMAIN cur
  THEN (* C24: ground instances of the answers against the sequence-level relation *)
       LET impl == [i \in 1..Len(got) |-> ImplAnswer(got[i])]
           qs == [i \in 1..Len(cur.qvars) |-> V(cur.qvars[i])]
       IN LibReasons(cur.lib, cur.args, qs, impl, rec.kind = "exhausted", LibValsFor(cur.args))
  ELSE IF Flag("noref") THEN {}
  ELSE
  LET spec == QueryAnswers(cur, Fuel)
      impl == [i \in 1..Len(got) |-> ImplAnswer(got[i])]
  IN IF \E i \in 1..Len(impl) : \E c \in impl[i].cs : ~Acyclic(c[2])
     THEN {"malformed_constraint"}   \* a reported disequality binds a variable to a term containing it
     ELSE SeqReasons(spec.answers, spec.cut, impl, AnsEquiv, rec)
          \cup One(IF ~Flag("ordered") \/ spec.cut \/ BlockOrdered(impl, spec.answers, spec.blen, AnsEquiv)
                   THEN "" ELSE "wrong_order")
          \cup One(IF "ticks" \in DOMAIN cur /\ rec.kind = "exhausted" /\ rec.tick # cur.ticks
                   THEN "model_tick_mismatch" ELSE "")
          \cup (* user state per branch (C10, C22): the trails carried by the states that reach the end
                  of the query are those of the reference semantics, as a multiset *)
               One(IF spec.cut \/ rec.kind # "exhausted" \/ Len(fin) # Len(spec.finals)
                      \/ BagEquiv([i \in 1..Len(fin) |-> fin[i].u.trail],
                                  [i \in 1..Len(spec.finals) |-> spec.finals[i].u.trail], =)
                   THEN "" ELSE "user_trail_differs")

(* end of a solver case: emitted states against the reference semantics *)
StateEquiv(a, b) ==
  /\ a.u.trail = b.u.trail
  /\ (Flag("trail_only") \/ (TreeStoreEquiv(a, b) /\ a.ds = b.ds))
(* C07 / C09: every branch label has appeared need[label] times before the budget ran out *)
NeedReasons(rec) ==
  IF "need" \notin DOMAIN cur THEN {}
  ELSE LET HasL(js, b) == \E i \in 1..Len(js.u.trail) : js.u.trail[i] = b
           CountL(b) == Cardinality({i \in 1..Len(got) : HasL(got[i], b)})
       IN One(IF \A b \in DOMAIN cur.need : CountL(b) >= cur.need[b] THEN "" ELSE "unfair_starvation")

SolverEndReason(rec) ==
  IF rec.kind = "toolerr" THEN {"tool_error"}
  ELSE IF rec.kind = "panic" THEN {"panic"}
  ELSE IF rec.kind = "budget" THEN {"budget_exhausted"} \cup NeedReasons(rec)
  ELSE
  IF Flag("noref") THEN NeedReasons(rec) \cup One(IF \A i \in 1..Len(rec.after) : rec.after[i] THEN "" ELSE "not_fused")
  ELSE
  LET spec == Eval(cur.goal, InitK(0), Fuel, DefsOf(cur))
      impl == [i \in 1..Len(got) |-> StoreOfJson(got[i])]
  IN SeqReasons(spec.out, spec.cut, impl, StateEquiv, rec)
     \cup One(IF "ticks" \in DOMAIN cur /\ rec.kind = "exhausted" /\ rec.tick # cur.ticks
              THEN "model_tick_mismatch" ELSE "")

(* Groups: implementation-against-implementation comparisons across the cases of a group.
     same_bag   every case has the same answer multiset as the first one
     same_seq   every case has the same answer sequence as the first one
     union      the first case's answers are the multiset union of the others' *)
RECURSIVE EncT(_)
EncT(t) ==
  CASE t[1] = "cmp"  -> ListOf(<< <<"sym", "s:" \o t[2]>> >> \o [i \in 1..Len(t[3]) |-> EncT(t[3][i])])
    [] t[1] = "cons" -> TCons(EncT(t[2]), EncT(t[3]))
    [] OTHER         -> t
EncAnswer(a) == [q |-> [i \in 1..Len(a.q) |-> EncT(a.q[i])],
                 cs |-> {<<"neq", [x \in DOMAIN c[2] |-> EncT(c[2][x])]>> : c \in a.cs}]
ImplResults == IF cur.mode = "query"
               THEN [i \in 1..Len(got) |-> IF Flag("enc") THEN EncAnswer(ImplAnswer(got[i])) ELSE ImplAnswer(got[i])]
               ELSE [i \in 1..Len(got) |-> StoreOfJson(got[i])]
GroupOf(c) == IF "group" \in DOMAIN c THEN c.group ELSE "none"
HistAfter(rec) ==
  LET e == [group |-> GroupOf(cur), res |-> ImplResults, kind |-> rec.kind] IN
  IF Len(hist) > 0 /\ hist[1].group = e.group /\ e.group # "none" THEN Append(hist, e) ELSE <<e>>
GroupReasons(rec) ==
  IF "gcheck" \notin DOMAIN cur THEN {}
  ELSE
  LET h == HistAfter(rec)
      Eq(a, b) == IF cur.mode = "query" THEN AnsEquiv(a, b) ELSE StateEquiv(a, b)
      RECURSIVE Cat(_)
      Cat(i) == IF i > Len(h) THEN <<>> ELSE h[i].res \o Cat(i + 1)
  IN
  IF \E i \in 2..Len(h) : h[i].kind # h[1].kind THEN {"group_outcomes_differ"}
  ELSE IF \E i \in 1..Len(h) : h[i].kind # "exhausted" /\ h[i].kind # "take" THEN {}
  ELSE IF cur.gcheck \in {"same_bag", "same_seq"} /\ \E i \in 2..Len(h) : Len(h[i].res) # Len(h[1].res)
  THEN {IF cur.gcheck = "same_seq" THEN "group_sequences_differ" ELSE "group_bags_differ"}
  ELSE IF cur.mode = "query" /\ \E i \in 1..Len(h) : \E n \in 1..Len(h[i].res) : \E c \in h[i].res[n].cs : ~Acyclic(c[2])
  THEN {"malformed_constraint"}
  ELSE CASE cur.gcheck = "same_bag" ->
              One(IF \A i \in 2..Len(h) : BagEquiv(h[1].res, h[i].res, Eq) THEN "" ELSE "group_bags_differ")
         [] cur.gcheck = "same_seq" ->
              One(IF \A i \in 2..Len(h) : Len(h[i].res) = Len(h[1].res)
                                           /\ \A n \in 1..Len(h[1].res) : Eq(h[1].res[n], h[i].res[n])
                  THEN "" ELSE "group_sequences_differ")
         [] cur.gcheck = "union" ->
              One(IF BagEquiv(h[1].res, Cat(2), Eq) THEN "" ELSE "group_union_differs")

(* C21: one LTerm container operation *)
TermReasons(rec) ==
  LET t == IF cur.t[1] = "none" THEN cur.t ELSE Norm(cur.t)
      u == IF cur.u[1] = "none" THEN cur.u ELSE Norm(cur.u)
      xs == [k \in 1..Len(cur.xs) |-> Norm(cur.xs[k])]
      exp == TermExpected(cur.op, t, u, xs, cur.i)
      r == rec.res
  IN IF cur.op = "eq"
     THEN FirstReason(<<
            IF r[2] = exp[2] /\ r[3] = exp[3] THEN "" ELSE "term_eq_wrong",
            IF r[5] THEN "" ELSE "term_eq_not_reflexive",
            IF r[4] THEN "" ELSE "equal_terms_hash_differently" >>)
     ELSE One(IF r[1] = exp[1] /\ (r[1] = "none" \/ r[2] = exp[2]) THEN "" ELSE "term_op_wrong")

(* C18: one FiniteDomain operation *)
DomReasons(rec) ==
  LET A == DAbs(cur.a)
      B == IF cur.op \in {"intersect", "diff", "is_disjoint", "eq"} THEN DAbs(cur.b) ELSE {}
  IN One(IF DomAgrees(DomExpected(cur.op, A, B, cur.arg), rec.res) THEN "" ELSE "domain_op_wrong")

-----------------------------------------------------------------------------
Rec == Obs[l]

(* record every reason once per case; the case goes on being checked *)
Note(why) ==
  LET new == why \ seen IN
  /\ seen' = seen \cup why
  /\ rej' = rej \o [i \in 1..Cardinality(new) |->
                     [case |-> Rec.case, at |-> l, reason |-> SetToSeq(new)[i]]]

Next ==
  /\ l <= Len(Obs)
  /\ l' = l + 1
  /\ IF Rec.k = "reset"
     THEN /\ cur' = Rec.c /\ seen' = {} /\ rej' = rej
          /\ S' = InitK(IF "k" \in DOMAIN Rec.c THEN Rec.c.k ELSE 0) /\ prevI' = InitK(0)
          /\ posted' = <<>> /\ got' = <<>> /\ fin' = <<>> /\ nok' = nok /\ hist' = hist
          /\ eng' = IF "engine" \in DOMAIN Rec.c /\ Rec.c.engine
                    THEN Solve(IF Rec.c.mode = "query"
                               THEN QueryGoalP(Rec.c.qvars, Rec.c.body,
                                               ~("backend" \in DOMAIN Rec.c /\ Rec.c.backend = "surface"))
                               ELSE Build("b", Rec.c.goal), InitK(0), 400, DefsOf(Rec.c)).s
                    ELSE <<"empty">>
     ELSE IF Rec.k = "engine"
     THEN (* engine-level trace validation: the recorded stream skeleton is the specification's,
             and the specification takes the same step of the loop of Solver::next *)
          /\ Note(One(IF SkelS(eng) = Rec.skel THEN "" ELSE "engine_shape_mismatch"))
          /\ eng' = AfterNext(eng, 400, DefsOf(cur))
          /\ UNCHANGED <<cur, S, prevI, posted, got, fin, nok, hist>>
     ELSE IF Rec.k = "store_op" /\ Flag("fd")
     THEN LET I == StoreOfJson(Rec.s) IN
          /\ Note(FdStoreOpReason(Rec, I))
          /\ posted' = IF Rec.ok THEN Append(posted, Rec.op) ELSE posted
          /\ prevI' = I /\ UNCHANGED <<cur, S, got, fin, nok, hist, eng>>
     ELSE IF Rec.k = "store_op"
     THEN LET S1 == Post(S, Rec.op)
              Snext == IF S1.ok THEN S1 ELSE S
              I == StoreOfJson(Rec.s)
          IN /\ Note(StoreOpReason(Rec, Snext, S1.ok, I))
             /\ S' = Snext /\ prevI' = I
             /\ posted' = IF S1.ok THEN Append(posted, Rec.op) ELSE posted
             /\ UNCHANGED <<cur, got, fin, nok, hist, eng>>
     ELSE IF Rec.k \in {"answer", "state"}
     THEN /\ Note(IF Rec.k = "answer" THEN AnswerReason(Rec.a) ELSE {})
          /\ got' = Append(got, IF Rec.k = "answer" THEN Rec.a ELSE Rec.s)
          /\ UNCHANGED <<cur, S, prevI, posted, fin, nok, hist, eng>>
     ELSE IF Rec.k \in {"final", "probe"}
     THEN LET I == StoreOfJson(Rec.s) IN
          /\ Note(One(BalanceReason(I)))
          /\ fin' = IF Rec.k = "final" THEN Append(fin, I) ELSE fin
          /\ UNCHANGED <<cur, S, prevI, posted, got, nok, hist, eng>>
     ELSE IF Rec.k = "termop"
     THEN /\ Note(TermReasons(Rec))
          /\ UNCHANGED <<cur, S, prevI, posted, got, fin, nok, hist, eng>>
     ELSE IF Rec.k = "domop"
     THEN /\ Note(DomReasons(Rec))
          /\ UNCHANGED <<cur, S, prevI, posted, got, fin, nok, hist, eng>>
     ELSE IF Rec.k = "end"
     THEN LET isProg == cur.kind = "program"
              why == (IF isProg /\ cur.mode = "query" THEN QueryEndReason(Rec)
                      ELSE IF isProg /\ cur.mode = "solver" THEN SolverEndReason(Rec)
                      ELSE IF Rec.kind = "toolerr" THEN {"tool_error"}
                      ELSE IF Rec.kind = "panic" THEN {"panic"} ELSE {})
                     \cup (IF isProg THEN GroupReasons(Rec) ELSE {})
          IN /\ Note(why)
             /\ nok' = IF seen \cup why = {} THEN nok + 1 ELSE nok
             /\ hist' = IF isProg THEN HistAfter(Rec) ELSE hist
             /\ UNCHANGED <<cur, S, prevI, posted, got, fin, eng>>
     ELSE UNCHANGED <<cur, S, prevI, posted, got, fin, rej, seen, nok, hist, eng>>

Spec == Init /\ [][Next]_vars

(* printed exactly once, when every record has been consumed *)
Done == (l = Len(Obs) + 1) => PrintT("RESULT " \o ToJson([n |-> Len(Obs), accepted |-> nok, rej |-> rej]))

=============================================================================
