------------------------------- MODULE Kanren -------------------------------
(***************************************************************************)
(* Programs: the reference (denotational) semantics of goal trees over the *)
(* store of Store.tla, queries, FD labelling and reification.              *)
(*                                                                         *)
(*   SubstG, LibDef, Unfold   goal ASTs of the library relations           *)
(*   ForceAns, EnforceFd  src/state/reification.rs (force_ans,             *)
(*                      enforce_constraints_fd)                            *)
(*   Reify              reify + ResultIterator::next (src/query.rs):       *)
(*                      walk*, naming of unbound variables, purify         *)
(*   LibDef             src/relation/*.rs as goal ASTs (Lib.tla holds the  *)
(*                      sequence-level meaning they are checked against)   *)
(*                                                                         *)
(* Goal ASTs are the case-file forms (DESIGN Appendix B).  Variables       *)
(* introduced while evaluating (closure unfoldings, library relations)     *)
(* are <<"var", n>> with n drawn from the store's own counter S.next, so   *)
(* every unfolding gets new variables.                                     *)
(***************************************************************************)
EXTENDS Store

InitK(k) == [InitStore(k) EXCEPT !.u = [@ EXCEPT !.trail = <<>>]] @@ [next |-> 1000]

RECURSIVE FlatSeq(_)
FlatSeq(ss) == IF Len(ss) = 0 THEN <<>> ELSE Head(ss) \o FlatSeq(Tail(ss))

(* substitute variables in a goal AST by terms (used to instantiate relation bodies and
   `for` bodies); ren is a function from variable terms to terms *)
RECURSIVE SubstT(_, _)
SubstT(t, ren) ==
  CASE t[1] = "var"   -> IF t \in DOMAIN ren THEN ren[t] ELSE t
    [] t[1] = "any"   -> IF <<"var", t[2]>> \in DOMAIN ren THEN ren[<<"var", t[2]>>] ELSE t
    [] t[1] = "cons"  -> <<"cons", SubstT(t[2], ren), SubstT(t[3], ren)>>
    [] t[1] \in {"list", "ilist"} -> <<t[1], [i \in 1..Len(t[2]) |-> SubstT(t[2][i], ren)]>>
    [] t[1] = "cmp"   -> <<"cmp", t[2], [i \in 1..Len(t[3]) |-> SubstT(t[3][i], ren)]>>
    [] OTHER          -> t

RECURSIVE SubstG(_, _)
SubstGs(gs, ren) == [i \in 1..Len(gs) |-> SubstG(gs[i], ren)]
SubstCl(cl, ren) == [i \in 1..Len(cl) |-> SubstGs(cl[i], ren)]
SubstG(g, ren) ==
  CASE g[1] \in {"eq", "neq", "ltefd", "ltfd", "neqfd"} -> <<g[1], SubstT(g[2], ren), SubstT(g[3], ren)>>
    [] g[1] \in {"plusfd", "minusfd", "timesfd", "plusz", "timesz"} ->
         <<g[1], SubstT(g[2], ren), SubstT(g[3], ren), SubstT(g[4], ren)>>
    [] g[1] \in {"distinctfd", "show", "isnum", "isground"} -> <<g[1], SubstT(g[2], ren)>>
    [] g[1] = "dom" -> <<"dom", SubstT(g[2], ren), g[3]>>
    [] g[1] \in {"conj", "disj", "closure"} -> <<g[1], SubstGs(g[2], ren)>>
    [] g[1] = "twice" -> <<"twice", SubstG(g[2], ren), SubstG(g[3], ren)>>
    [] g[1] \in {"rawconj", "rawdisj"} -> <<g[1], SubstG(g[2], ren), SubstG(g[3], ren)>>
    [] g[1] \in {"conde", "cond", "dfs", "conda", "condu", "onceo", "loop"} -> <<g[1], SubstCl(g[2], ren)>>
    [] g[1] = "fresh" -> <<"fresh", g[2], SubstGs(g[3], ren)>>
    [] g[1] = "project" -> <<"project", g[2], SubstGs(g[3], ren)>>
    [] g[1] = "for" -> <<"for", g[2], [i \in 1..Len(g[3]) |-> SubstT(g[3][i], ren)], SubstCl(g[4], ren)>>
    [] g[1] = "call" -> <<"call", g[2], [i \in 1..Len(g[3]) |-> SubstT(g[3][i], ren)]>>
    [] OTHER -> g

(* rename the variables a `fresh` binds (ids) to new ones starting at base *)
FreshRen(ids, base) == [v \in {<<"var", ids[i]>> : i \in 1..Len(ids)} |->
                           <<"var", base + (CHOOSE i \in 1..Len(ids) : ids[i] = v[2]) - 1>>]

-----------------------------------------------------------------------------
(* Library relations (src/relation/*.rs) as goal ASTs over parameters numbered from 1;
   local variables of a body are numbered from 101 and renamed at every unfolding. *)
V(i) == <<"var", i>>
LibDef(name) ==
  CASE name = "member" ->   (* match l { [head|_] => head == x, [_|rest] => member(x, rest) } *)
         [params |-> <<1, 2>>, locals |-> <<101, 102, 103, 104>>,
          body |-> <<"conde", <<
             << <<"eq", V(2), <<"cons", V(101), V(102)>>>>, <<"eq", V(101), V(1)>> >>,
             << <<"eq", V(2), <<"cons", V(103), V(104)>>>>, <<"call", "member", <<V(1), V(104)>>>> >> >> >>]
    [] name = "member1" ->
         [params |-> <<1, 2>>, locals |-> <<101, 102, 103, 104>>,
          body |-> <<"conde", <<
             << <<"eq", V(2), <<"cons", V(101), V(102)>>>>, <<"eq", V(101), V(1)>> >>,
             << <<"eq", V(2), <<"cons", V(103), V(104)>>>>,
                <<"conj", << <<"neq", V(103), V(1)>>, <<"call", "member1", <<V(1), V(104)>>>> >> >> >> >> >>]
    [] name = "append" ->    (* match [l, s, ls] { [[], x, x] => , [[x|l1], l2, [x|l3]] => append(l1,l2,l3) } *)
         [params |-> <<1, 2, 3>>, locals |-> <<101, 102, 103, 104, 105>>,
          body |-> <<"conde", <<
             << <<"eq", <<"list", <<V(1), V(2), V(3)>>>>, <<"list", << <<"nil">>, V(101), V(101)>>>> >> >>,
             << <<"eq", <<"list", <<V(1), V(2), V(3)>>>>,
                        <<"list", << <<"cons", V(102), V(103)>>, V(104), <<"cons", V(102), V(105)>> >>>> >>,
                <<"call", "append", <<V(103), V(104), V(105)>>>> >> >> >>]
    [] name = "rember" ->
         [params |-> <<1, 2, 3>>, locals |-> <<101, 102, 103, 104, 105>>,
          body |-> <<"conde", <<
             << <<"eq", <<"list", <<V(2), V(3)>>>>, <<"list", << <<"nil">>, <<"nil">> >>>> >> >>,
             << <<"eq", <<"list", <<V(2), V(3)>>>>, <<"list", << <<"cons", V(101), V(102)>>, V(102) >>>> >>,
                <<"eq", V(101), V(1)>> >>,
             << <<"eq", <<"list", <<V(2), V(3)>>>>,
                        <<"list", << <<"cons", V(103), V(104)>>, <<"cons", V(103), V(105)>> >>>> >>,
                (* a braced arm body { g1, g2 } contributes its goals to the arm's own conjunction *)
                <<"neq", V(103), V(1)>>, <<"call", "rember", <<V(1), V(104), V(105)>>>> >> >> >>]
    [] name = "permute" ->
         (* CORRECTED (DESIGN 8 item 11): the pinned code removes x from yl with `rember`, which is
            the identity when x is absent, so it also relates a list to its sub-multisets; the
            intended relation takes x OUT of yl (select). *)
         [params |-> <<1, 2>>, locals |-> <<101, 102, 103, 104>>,
          body |-> <<"conde", <<
             << <<"eq", <<"list", <<V(1), V(2)>>>>, <<"list", << <<"nil">>, <<"nil">> >>>> >> >>,
             << <<"eq", <<"list", <<V(1), V(2)>>>>, <<"list", << <<"cons", V(101), V(102)>>, V(103) >>>> >>,
                <<"fresh", <<104>>, << <<"call", "permute", <<V(102), V(104)>>>>,
                                       <<"call", "select", <<V(101), V(2), V(104)>>>> >> >> >> >> >>]
    [] name = "select" ->    (* select(x, l, r): r is l without one occurrence of x *)
         [params |-> <<1, 2, 3>>, locals |-> <<101, 102, 103>>,
          body |-> <<"conde", <<
             << <<"eq", V(2), <<"cons", V(1), V(3)>> >> >>,
             << <<"eq", <<"list", <<V(2), V(3)>>>>,
                        <<"list", << <<"cons", V(101), V(102)>>, <<"cons", V(101), V(103)>> >>>> >>,
                <<"call", "select", <<V(1), V(102), V(103)>>>> >> >> >>]
    [] name = "distinct" ->
         [params |-> <<1>>, locals |-> <<101, 102, 103, 104>>,
          body |-> <<"conde", <<
             << <<"eq", V(1), <<"nil">> >> >>,
             << <<"eq", V(1), <<"list", <<V(101)>>>> >> >>,
             << <<"eq", V(1), <<"ilist", <<V(102), V(103), V(104)>>>> >>,
                <<"conj", << <<"neq", V(102), V(103)>>,
                             <<"call", "distinct", << <<"cons", V(102), V(104)>> >> >>,
                             <<"call", "distinct", << <<"cons", V(103), V(104)>> >> >> >> >> >> >> >>]
    [] name = "cons" ->
         [params |-> <<1, 2, 3>>, locals |-> <<>>, body |-> <<"eq", <<"cons", V(1), V(2)>>, V(3)>>]
    [] name = "first" ->
         [params |-> <<1, 2>>, locals |-> <<101>>, body |-> <<"eq", <<"cons", V(2), V(101)>>, V(1)>>]
    [] name = "rest" ->
         [params |-> <<1, 2>>, locals |-> <<101>>, body |-> <<"eq", <<"cons", V(101), V(2)>>, V(1)>>]
    [] name = "empty" ->
         [params |-> <<1>>, locals |-> <<>>, body |-> <<"eq", <<"nil">>, V(1)>>]

(* Elaboration of the pattern-matching operators (macros/src/lib.rs, PatternMatchOperator):
     match t { p1 | p2 => body, ... }
   is the disjunction, over arms and alternatives, of the clauses [t == p_i, body...]; every
   name of a pattern is a variable local to its arm AND alternative (the k-th alternative of an
   arm gets the copies v + 5000 * (k - 1) of the arm's variables; wildcards are distinct
   variables already), the matched term is evaluated outside the pattern's scope.  `match` and
   `matche` are interleaving disjunctions, `matcha` / `matchu` apply the committed-choice
   rules to the same clause list (the match-equation is the head goal of each clause).
   An arm is a record [pats, vars, body]. *)
AltRen(vars, k) == [v \in {<<"var", vars[i]>> : i \in 1..Len(vars)} |-> <<"var", v[2] + 5000 * (k - 1)>>]
RECURSIVE Elab(_)
ElabGs(gs) == [i \in 1..Len(gs) |-> Elab(gs[i])]
ElabCl(cls) == [i \in 1..Len(cls) |-> ElabGs(cls[i])]
Elab(g) ==
  CASE g[1] = "match" ->
         LET arms == g[4]
             ClauseOf(i, k) == << <<"eq", g[3], SubstT(arms[i].pats[k], AltRen(arms[i].vars, k))>> >>
                               \o SubstGs(ElabGs(arms[i].body), AltRen(arms[i].vars, k))
             cls == FlatSeq([i \in 1..Len(arms) |-> [k \in 1..Len(arms[i].pats) |-> ClauseOf(i, k)]])
         IN <<IF g[2] = "matcha" THEN "conda" ELSE IF g[2] = "matchu" THEN "condu" ELSE "conde", cls>>
    [] g[1] \in {"conj", "disj", "closure"} -> <<g[1], ElabGs(g[2])>>
    [] g[1] = "twice" -> <<"twice", Elab(g[2]), Elab(g[3])>>
    [] g[1] \in {"rawconj", "rawdisj"} -> <<g[1], Elab(g[2]), Elab(g[3])>>
    [] g[1] \in {"conde", "cond", "dfs", "conda", "condu", "onceo", "loop"} -> <<g[1], ElabCl(g[2])>>
    [] g[1] \in {"fresh", "project"} -> <<g[1], g[2], ElabGs(g[3])>>
    [] g[1] = "for" -> <<"for", g[2], g[3], ElabCl(g[4])>>
    [] OTHER -> g

(* a relation defined by the case (body = list of goals) or a library relation *)
DefOf(name, D) == IF name \in DOMAIN D THEN [D[name] EXCEPT !.body = <<"conj", ElabGs(D[name].body)>>] ELSE LibDef(name)

(* the body of relation `name` applied to args, with locals renamed from `base` *)
Unfold(def, args, base) ==
  LET pren == [v \in {V(def.params[i]) : i \in 1..Len(def.params)} |->
                  args[CHOOSE i \in 1..Len(def.params) : def.params[i] = v[2]]]
      lren == FreshRen(def.locals, base)
  IN SubstG(def.body, pren @@ lren)

-----------------------------------------------------------------------------
(* FD labelling (src/state/reification.rs) *)

RECURSIVE ForceAns(_, _)
RECURSIVE ForceAnsFrom(_, _)
ForceAnsFrom(t, Ss) ==
  IF Len(Ss) = 0 THEN <<>> ELSE ForceAns(t, Head(Ss)) \o ForceAnsFrom(t, Tail(Ss))

(* CORRECTED (DESIGN 8 item 8): compound fields are labelled like list elements *)
ForceAns(t, S) ==
  LET w == Walk(t, S.smap) IN
  IF IsVar(w) /\ w \in DOMAIN S.ds THEN
     LET vals == SortSeq(SetToSeq(S.ds[w]), LAMBDA a, b : a < b)
         RECURSIVE Go(_)
         Go(i) == IF i > Len(vals) THEN <<>>
                  ELSE LET S1 == Unify(S, w, Num(vals[i])) IN
                       (IF S1.ok THEN <<S1>> ELSE <<>>) \o Go(i + 1)
     IN Go(1)
  ELSE IF w[1] = "cons" THEN ForceAnsFrom(w[3], ForceAns(w[2], S))
  ELSE IF w[1] = "cmp" THEN
     LET RECURSIVE Go(_, _)
         Go(i, Ss) == IF i > Len(w[3]) THEN Ss ELSE Go(i + 1, ForceAnsFrom(w[3][i], Ss))
     IN Go(1, <<S>>)
  ELSE <<S>>

(* enforce_constraints_fd: label the query term, then ONE labelling of the remaining domain
   variables (onceo) *)
EnforceFd(q, S) ==
  LET first == ForceAns(q, S)
      RECURSIVE Go(_)
      Go(i) == IF i > Len(first) THEN <<>>
               ELSE LET rest == ForceAns(ListOf(SetToSeq(DOMAIN first[i].ds)), first[i]) IN
                    (IF Len(rest) > 0 THEN <<rest[1]>> ELSE <<>>) \o Go(i + 1)
  IN Go(1)

(* FD operands that are unbound and have no domain at labelling time: verify_all_bound panics *)
UnboundFdOperands(S) ==
  {x \in UNION {{Walk(c[i], S.smap) : i \in 2..Len(c)} :
                 c \in {d \in S.cs : d[1] \in {"ltefd", "plusfd", "minusfd", "timesfd", "neqfd"}}} :
     IsVar(x) /\ x \notin DOMAIN S.ds}

-----------------------------------------------------------------------------
(* Reification of one final store for query variables qs (a sequence of variable terms).
   An answer is [q: tuple of terms over <<"any",0>>, <<"any",1>>, ... in order of first
   occurrence, cs: set of disequalities <<"neq", f>> over those]. *)

AnyRen(vs) == [v \in {vs[i] : i \in 1..Len(vs)} |-> <<"any", (CHOOSE i \in 1..Len(vs) : vs[i] = v) - 1>>]

RenNeq(c, ren) ==   (* rename keys and values of a disequality *)
  <<"neq", [k \in {Inst(x, ren) : x \in DOMAIN c[2]} |->
              Inst(c[2][CHOOSE x \in DOMAIN c[2] : Inst(x, ren) = k], ren)]>>

NeqVars(c) == (DOMAIN c[2]) \cup UNION {VarsOf(c[2][x]) : x \in DOMAIN c[2]}

(* CORRECTED (DESIGN 8 item 4): a disequality is reported only if ALL its variables are
   reified variables of the answer (the pinned code keeps it when ANY key is). *)
Reify(S, qs) ==
  LET qt == [i \in 1..Len(qs) |-> WalkStar(qs[i], S.smap)]
      vs == VarSeq(ListOf(qt))
      ren == AnyRen(vs)
      live == {NeqUnder(c, S.smap) : c \in {d \in S.cs : d[1] = "neq"}}
      walked == {<<"neq", [x \in DOMAIN c[2] |-> WalkStar(c[2][x], S.smap)]>> :
                    c \in {d \in live : d[1] = "neq"}}
      kept == {c \in walked : NeqVars(c) \subseteq DOMAIN ren}
  IN [q |-> [i \in 1..Len(qt) |-> Inst(qt[i], ren)], cs |-> {RenNeq(c, ren) : c \in kept}]

-----------------------------------------------------------------------------
(* Comparison of answers up to renaming and logical equivalence of constraint sets *)

NeqSetImplies(A, B) == \A c \in B : \E d \in A : Subsumes(d, c)
AnsEquiv(a, b) == a.q = b.q /\ NeqSetImplies(a.cs, b.cs) /\ NeqSetImplies(b.cs, a.cs)

(* multiset equality of two sequences under an equivalence *)
BagEquiv(A, B, Eq(_, _)) ==
  /\ Len(A) = Len(B)
  /\ \A i \in 1..Len(A) :
        Cardinality({j \in 1..Len(A) : Eq(A[i], A[j])}) = Cardinality({j \in 1..Len(B) : Eq(A[i], B[j])})

=============================================================================
