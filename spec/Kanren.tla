------------------------------- MODULE Kanren -------------------------------
(***************************************************************************)
(* Programs: the reference (denotational) semantics of goal trees over the *)
(* store of Store.tla, queries, FD labelling and reification.              *)
(*                                                                         *)
(*   Eval(g, S, fuel)   reference semantics of a goal: the SEQUENCE of     *)
(*                      result stores in left-to-right depth-first order   *)
(*                      (= Seq of DESIGN 3.4; its bag is Bag)              *)
(*   ForceAns, EnforceFd  src/state/reification.rs (force_ans,             *)
(*                      enforce_constraints_fd)                            *)
(*   Reify              reify + ResultIterator::next (src/query.rs):       *)
(*                      walk*, naming of unbound variables, purify         *)
(*   LibDef             src/relation/*.rs as goal ASTs (Lib.tla holds the  *)
(*                      sequence-level meaning they are checked against)   *)
(*                                                                         *)
(* Goal ASTs are the case-file forms (DESIGN Appendix B).  Variables       *)
(* introduced while evaluating (closure unfoldings, library relations)     *)
(* are <<"var", n>> with n drawn from the store's own counter S.next, so   *)
(* every unfolding gets new variables.                                     *)
(***************************************************************************)
EXTENDS Store

InitK(k) == [InitStore(k) EXCEPT !.u = [@ EXCEPT !.trail = <<>>]] @@ [next |-> 1000]

RECURSIVE FlatSeq(_)
FlatSeq(ss) == IF Len(ss) = 0 THEN <<>> ELSE Head(ss) \o FlatSeq(Tail(ss))

(* substitute variables in a goal AST by terms (used to instantiate relation bodies and
   `for` bodies); ren is a function from variable terms to terms *)
RECURSIVE SubstT(_, _)
SubstT(t, ren) ==
  CASE t[1] = "var"   -> IF t \in DOMAIN ren THEN ren[t] ELSE t
    [] t[1] = "any"   -> IF <<"var", t[2]>> \in DOMAIN ren THEN ren[<<"var", t[2]>>] ELSE t
    [] t[1] = "cons"  -> <<"cons", SubstT(t[2], ren), SubstT(t[3], ren)>>
    [] t[1] \in {"list", "ilist"} -> <<t[1], [i \in 1..Len(t[2]) |-> SubstT(t[2][i], ren)]>>
    [] t[1] = "cmp"   -> <<"cmp", t[2], [i \in 1..Len(t[3]) |-> SubstT(t[3][i], ren)]>>
    [] OTHER          -> t

RECURSIVE SubstG(_, _)
SubstGs(gs, ren) == [i \in 1..Len(gs) |-> SubstG(gs[i], ren)]
SubstCl(cl, ren) == [i \in 1..Len(cl) |-> SubstGs(cl[i], ren)]
SubstG(g, ren) ==
  CASE g[1] \in {"eq", "neq", "ltefd", "ltfd", "neqfd"} -> <<g[1], SubstT(g[2], ren), SubstT(g[3], ren)>>
    [] g[1] \in {"plusfd", "minusfd", "timesfd", "plusz", "timesz"} ->
         <<g[1], SubstT(g[2], ren), SubstT(g[3], ren), SubstT(g[4], ren)>>
    [] g[1] \in {"distinctfd", "show", "isnum"} -> <<g[1], SubstT(g[2], ren)>>
    [] g[1] = "dom" -> <<"dom", SubstT(g[2], ren), g[3]>>
    [] g[1] \in {"conj", "disj", "closure"} -> <<g[1], SubstGs(g[2], ren)>>
    [] g[1] \in {"rawconj", "rawdisj"} -> <<g[1], SubstG(g[2], ren), SubstG(g[3], ren)>>
    [] g[1] \in {"conde", "cond", "dfs", "conda", "condu", "onceo", "loop"} -> <<g[1], SubstCl(g[2], ren)>>
    [] g[1] = "fresh" -> <<"fresh", g[2], SubstGs(g[3], ren)>>
    [] g[1] = "project" -> <<"project", g[2], SubstGs(g[3], ren)>>
    [] g[1] = "for" -> <<"for", g[2], [i \in 1..Len(g[3]) |-> SubstT(g[3][i], ren)], SubstCl(g[4], ren)>>
    [] g[1] = "call" -> <<"call", g[2], [i \in 1..Len(g[3]) |-> SubstT(g[3][i], ren)]>>
    [] OTHER -> g

(* rename the variables a `fresh` binds (ids) to new ones starting at base *)
FreshRen(ids, base) == [v \in {<<"var", ids[i]>> : i \in 1..Len(ids)} |->
                           <<"var", base + (CHOOSE i \in 1..Len(ids) : ids[i] = v[2]) - 1>>]

-----------------------------------------------------------------------------
(* Library relations (src/relation/*.rs) as goal ASTs over parameters numbered from 1;
   local variables of a body are numbered from 101 and renamed at every unfolding. *)
V(i) == <<"var", i>>
LibDef(name) ==
  CASE name = "member" ->   (* match l { [head|_] => head == x, [_|rest] => member(x, rest) } *)
         [params |-> <<1, 2>>, locals |-> <<101, 102, 103, 104>>,
          body |-> <<"conde", <<
             << <<"eq", V(2), <<"cons", V(101), V(102)>>>>, <<"eq", V(101), V(1)>> >>,
             << <<"eq", V(2), <<"cons", V(103), V(104)>>>>, <<"call", "member", <<V(1), V(104)>>>> >> >> >>]
    [] name = "member1" ->
         [params |-> <<1, 2>>, locals |-> <<101, 102, 103, 104>>,
          body |-> <<"conde", <<
             << <<"eq", V(2), <<"cons", V(101), V(102)>>>>, <<"eq", V(101), V(1)>> >>,
             << <<"eq", V(2), <<"cons", V(103), V(104)>>>>,
                <<"conj", << <<"neq", V(103), V(1)>>, <<"call", "member1", <<V(1), V(104)>>>> >> >> >> >> >>]
    [] name = "append" ->    (* match [l, s, ls] { [[], x, x] => , [[x|l1], l2, [x|l3]] => append(l1,l2,l3) } *)
         [params |-> <<1, 2, 3>>, locals |-> <<101, 102, 103, 104, 105>>,
          body |-> <<"conde", <<
             << <<"eq", <<"list", <<V(1), V(2), V(3)>>>>, <<"list", << <<"nil">>, V(101), V(101)>>>> >> >>,
             << <<"eq", <<"list", <<V(1), V(2), V(3)>>>>,
                        <<"list", << <<"cons", V(102), V(103)>>, V(104), <<"cons", V(102), V(105)>> >>>> >>,
                <<"call", "append", <<V(103), V(104), V(105)>>>> >> >> >>]
    [] name = "rember" ->
         [params |-> <<1, 2, 3>>, locals |-> <<101, 102, 103, 104, 105>>,
          body |-> <<"conde", <<
             << <<"eq", <<"list", <<V(2), V(3)>>>>, <<"list", << <<"nil">>, <<"nil">> >>>> >> >>,
             << <<"eq", <<"list", <<V(2), V(3)>>>>, <<"list", << <<"cons", V(101), V(102)>>, V(102) >>>> >>,
                <<"eq", V(101), V(1)>> >>,
             << <<"eq", <<"list", <<V(2), V(3)>>>>,
                        <<"list", << <<"cons", V(103), V(104)>>, <<"cons", V(103), V(105)>> >>>> >>,
                <<"conj", << <<"neq", V(103), V(1)>>, <<"call", "rember", <<V(1), V(104), V(105)>>>> >> >> >> >> >>]
    [] name = "permute" ->
         [params |-> <<1, 2>>, locals |-> <<101, 102, 103, 104>>,
          body |-> <<"conde", <<
             << <<"eq", <<"list", <<V(1), V(2)>>>>, <<"list", << <<"nil">>, <<"nil">> >>>> >> >>,
             << <<"eq", <<"list", <<V(1), V(2)>>>>, <<"list", << <<"cons", V(101), V(102)>>, V(103) >>>> >>,
                <<"fresh", <<104>>, << <<"call", "permute", <<V(102), V(104)>>>>,
                                       <<"call", "rember", <<V(101), V(2), V(104)>>>> >> >> >> >> >>]
    [] name = "distinct" ->
         [params |-> <<1>>, locals |-> <<101, 102, 103, 104>>,
          body |-> <<"conde", <<
             << <<"eq", V(1), <<"nil">> >> >>,
             << <<"eq", V(1), <<"list", <<V(101)>>>> >> >>,
             << <<"eq", V(1), <<"ilist", <<V(102), V(103), V(104)>>>> >>,
                <<"conj", << <<"neq", V(102), V(103)>>,
                             <<"call", "distinct", << <<"cons", V(102), V(104)>> >> >>,
                             <<"call", "distinct", << <<"cons", V(103), V(104)>> >> >> >> >> >> >> >>]
    [] name = "cons" ->
         [params |-> <<1, 2, 3>>, locals |-> <<>>, body |-> <<"eq", <<"cons", V(1), V(2)>>, V(3)>>]
    [] name = "first" ->
         [params |-> <<1, 2>>, locals |-> <<101>>, body |-> <<"eq", <<"cons", V(2), V(101)>>, V(1)>>]
    [] name = "rest" ->
         [params |-> <<1, 2>>, locals |-> <<101>>, body |-> <<"eq", <<"cons", V(101), V(2)>>, V(1)>>]
    [] name = "empty" ->
         [params |-> <<1>>, locals |-> <<>>, body |-> <<"eq", <<"nil">>, V(1)>>]

(* the body of relation `name` applied to args, with locals renamed from `base` *)
Unfold(def, args, base) ==
  LET pren == [v \in {V(def.params[i]) : i \in 1..Len(def.params)} |->
                  args[CHOOSE i \in 1..Len(def.params) : def.params[i] = v[2]]]
      lren == FreshRen(def.locals, base)
  IN SubstG(def.body, pren @@ lren)

-----------------------------------------------------------------------------
(* Reference semantics.  Eval returns [out: sequence of stores, cut: fuel ran out].  *)

AtomicTags == {"eq", "neq", "dom", "ltefd", "ltfd", "neqfd", "plusfd", "minusfd", "timesfd",
               "distinctfd", "plusz", "timesz", "succeed", "fail", "leaf"}

R(out, cut) == [out |-> out, cut |-> cut]

RECURSIVE Eval(_, _, _, _)
RECURSIVE EvalSeq(_, _, _, _)      \* conjunction of a goal list from one store
RECURSIVE EvalSeqFrom(_, _, _, _)  \* conjunction of a goal list from each of a sequence of stores

EvalSeqFrom(gs, Ss, fuel, D) ==
  IF Len(Ss) = 0 THEN R(<<>>, FALSE)
  ELSE LET a == EvalSeq(gs, Head(Ss), fuel, D)
           b == EvalSeqFrom(gs, Tail(Ss), fuel, D)
       IN R(a.out \o b.out, a.cut \/ b.cut)

EvalSeq(gs, S, fuel, D) ==
  IF Len(gs) = 0 THEN R(<<S>>, FALSE)
  ELSE LET a == Eval(Head(gs), S, fuel, D)
           b == EvalSeqFrom(Tail(gs), a.out, fuel, D)
       IN R(b.out, a.cut \/ b.cut)

(* disjunction of clauses (each a goal list) from one store, in clause order *)
EvalClauses(cls, S, fuel, D) ==
  LET RECURSIVE Go(_)
      Go(i) == IF i > Len(cls) THEN R(<<>>, FALSE)
               ELSE LET a == EvalSeq(cls[i], S, fuel, D)  b == Go(i + 1)
                    IN R(a.out \o b.out, a.cut \/ b.cut)
  IN Go(1)

(* committed choice: first clause whose head (first goal) has an answer; once = keep only
   the first head answer *)
EvalCommit(cls, S, fuel, D, once) ==
  LET RECURSIVE Go(_)
      Go(i) ==
        IF i > Len(cls) THEN R(<<>>, FALSE)
        ELSE IF Len(cls[i]) = 0 THEN Go(i + 1)
        ELSE LET h == Eval(cls[i][1], S, fuel, D) IN
             IF Len(h.out) > 0
             THEN LET hs == IF once THEN <<h.out[1]>> ELSE h.out
                      r == EvalSeqFrom(Tail(cls[i]), hs, fuel, D)
                  IN R(r.out, (h.cut /\ ~once) \/ r.cut)
             ELSE IF h.cut THEN R(<<>>, TRUE)
             ELSE Go(i + 1)
  IN Go(1)

Eval(g, S, fuel, D) ==
  IF g[1] \in AtomicTags
  THEN LET S1 == Post(S, g) IN IF S1.ok THEN R(<<S1>>, FALSE) ELSE R(<<>>, FALSE)
  ELSE
  CASE g[1] = "probe" -> R(<<S>>, FALSE)
    [] g[1] = "show"  -> R(<<[S EXCEPT !.u.trail = Append(@, WalkStar(Norm(g[2]), S.smap))]>>, FALSE)
    [] g[1] = "isnum" -> IF IsNum(Norm(g[2])) THEN R(<<S>>, FALSE) ELSE R(<<>>, FALSE)
    [] g[1] \in {"conj", "closure"} -> EvalSeq(g[2], S, fuel, D)
    [] g[1] = "rawconj" -> EvalSeq(<<g[2], g[3]>>, S, fuel, D)
    [] g[1] = "rawdisj" -> EvalClauses(<< <<g[2]>>, <<g[3]>> >>, S, fuel, D)
    [] g[1] = "disj" -> EvalClauses([i \in 1..Len(g[2]) |-> <<g[2][i]>>], S, fuel, D)
    [] g[1] \in {"conde", "cond"} -> EvalClauses(g[2], S, fuel, D)
    [] g[1] = "dfs" -> EvalSeq(FlatSeq(g[2]), S, fuel, D)
    [] g[1] = "fresh" -> EvalSeq(g[3], S, fuel, D)
    [] g[1] = "conda" -> EvalCommit(g[2], S, fuel, D, FALSE)
    [] g[1] = "condu" -> EvalCommit(g[2], S, fuel, D, TRUE)
    [] g[1] = "onceo" -> EvalCommit(<< <<<<"conj", FlatSeq(g[2])>>>> >>, S, fuel, D, TRUE)
    [] g[1] = "project" ->
         (* the body sees the walk*-ed value of the projected variables in THIS store *)
         LET ren == [v \in {V(g[2][i]) : i \in 1..Len(g[2])} |-> WalkStar(v, S.smap)]
         IN EvalSeq(SubstGs(g[3], ren), S, fuel, D)
    [] g[1] = "for" ->
         (* conjunction of the body for every element of the collection *)
         EvalSeq(FlatSeq([i \in 1..Len(g[3]) |->
                            FlatSeq(SubstCl(g[4], (V(g[2]) :> g[3][i])))]), S, fuel, D)
    [] g[1] = "call" ->
         IF fuel = 0 THEN R(<<>>, TRUE)
         ELSE LET def == IF g[2] \in DOMAIN D THEN D[g[2]] ELSE LibDef(g[2])
                  body == Unfold(def, g[3], S.next)
              IN Eval(body, [S EXCEPT !.next = @ + Len(def.locals)], fuel - 1, D)
    [] g[1] = "loop" ->    (* anyo: conde { g, anyo { g } } *)
         IF fuel = 0 THEN R(<<>>, TRUE)
         ELSE LET a == EvalSeq(FlatSeq(g[2]), S, fuel - 1, D)
                  b == Eval(g, S, fuel - 1, D)
              IN R(a.out \o b.out, a.cut \/ b.cut)
    [] g[1] = "always" -> Eval(<<"loop", << << <<"succeed">> >> >> >>, S, fuel, D)
    [] g[1] = "never" -> R(<<>>, TRUE)

-----------------------------------------------------------------------------
(* FD labelling (src/state/reification.rs) *)

RECURSIVE ForceAns(_, _)
RECURSIVE ForceAnsFrom(_, _)
ForceAnsFrom(t, Ss) ==
  IF Len(Ss) = 0 THEN <<>> ELSE ForceAns(t, Head(Ss)) \o ForceAnsFrom(t, Tail(Ss))

(* CORRECTED (DESIGN 8 item 8): compound fields are labelled like list elements *)
ForceAns(t, S) ==
  LET w == Walk(t, S.smap) IN
  IF IsVar(w) /\ w \in DOMAIN S.ds THEN
     LET vals == SortSeq(SetToSeq(S.ds[w]), LAMBDA a, b : a < b)
         RECURSIVE Go(_)
         Go(i) == IF i > Len(vals) THEN <<>>
                  ELSE LET S1 == Unify(S, w, Num(vals[i])) IN
                       (IF S1.ok THEN <<S1>> ELSE <<>>) \o Go(i + 1)
     IN Go(1)
  ELSE IF w[1] = "cons" THEN ForceAnsFrom(w[3], ForceAns(w[2], S))
  ELSE IF w[1] = "cmp" THEN
     LET RECURSIVE Go(_, _)
         Go(i, Ss) == IF i > Len(w[3]) THEN Ss ELSE Go(i + 1, ForceAnsFrom(w[3][i], Ss))
     IN Go(1, <<S>>)
  ELSE <<S>>

(* enforce_constraints_fd: label the query term, then ONE labelling of the remaining domain
   variables (onceo) *)
EnforceFd(q, S) ==
  LET first == ForceAns(q, S)
      RECURSIVE Go(_)
      Go(i) == IF i > Len(first) THEN <<>>
               ELSE LET rest == ForceAns(ListOf(SetToSeq(DOMAIN first[i].ds)), first[i]) IN
                    (IF Len(rest) > 0 THEN <<rest[1]>> ELSE <<>>) \o Go(i + 1)
  IN Go(1)

(* FD operands that are unbound and have no domain at labelling time: verify_all_bound panics *)
UnboundFdOperands(S) ==
  {x \in UNION {{Walk(c[i], S.smap) : i \in 2..Len(c)} :
                 c \in {d \in S.cs : d[1] \in {"ltefd", "plusfd", "minusfd", "timesfd", "neqfd"}}} :
     IsVar(x) /\ x \notin DOMAIN S.ds}

-----------------------------------------------------------------------------
(* Reification of one final store for query variables qs (a sequence of variable terms).
   An answer is [q: tuple of terms over <<"any",0>>, <<"any",1>>, ... in order of first
   occurrence, cs: set of disequalities <<"neq", f>> over those]. *)

AnyRen(vs) == [v \in {vs[i] : i \in 1..Len(vs)} |-> <<"any", (CHOOSE i \in 1..Len(vs) : vs[i] = v) - 1>>]

RenNeq(c, ren) ==   (* rename keys and values of a disequality *)
  <<"neq", [k \in {Inst(x, ren) : x \in DOMAIN c[2]} |->
              Inst(c[2][CHOOSE x \in DOMAIN c[2] : Inst(x, ren) = k], ren)]>>

NeqVars(c) == (DOMAIN c[2]) \cup UNION {VarsOf(c[2][x]) : x \in DOMAIN c[2]}

(* CORRECTED (DESIGN 8 item 4): a disequality is reported only if ALL its variables are
   reified variables of the answer (the pinned code keeps it when ANY key is). *)
Reify(S, qs) ==
  LET qt == [i \in 1..Len(qs) |-> WalkStar(qs[i], S.smap)]
      vs == VarSeq(ListOf(qt))
      ren == AnyRen(vs)
      live == {NeqUnder(c, S.smap) : c \in {d \in S.cs : d[1] = "neq"}}
      walked == {<<"neq", [x \in DOMAIN c[2] |-> WalkStar(c[2][x], S.smap)]>> :
                    c \in {d \in live : d[1] = "neq"}}
      kept == {c \in walked : NeqVars(c) \subseteq DOMAIN ren}
  IN [q |-> [i \in 1..Len(qt) |-> Inst(qt[i], ren)], cs |-> {RenNeq(c, ren) : c \in kept}]

(* The answers of a query case, in reference (depth-first) order *)
QueryAnswers(case, fuel) ==
  LET qs == [i \in 1..Len(case.qvars) |-> V(case.qvars[i])]
      D == IF "defs" \in DOMAIN case THEN case.defs ELSE [x \in {} |-> x]
      r == EvalSeq(case.body, InitK(0), fuel, D)
      labelled == FlatSeq([i \in 1..Len(r.out) |-> EnforceFd(ListOf(qs), r.out[i])])
  IN [answers |-> [i \in 1..Len(labelled) |-> Reify(labelled[i], qs)], cut |-> r.cut,
      finals |-> labelled]

-----------------------------------------------------------------------------
(* Comparison of answers up to renaming and logical equivalence of constraint sets *)

NeqSetImplies(A, B) == \A c \in B : \E d \in A : Subsumes(d, c)
AnsEquiv(a, b) == a.q = b.q /\ NeqSetImplies(a.cs, b.cs) /\ NeqSetImplies(b.cs, a.cs)

(* multiset equality of two sequences under an equivalence *)
BagEquiv(A, B, Eq(_, _)) ==
  /\ Len(A) = Len(B)
  /\ \A i \in 1..Len(A) :
        Cardinality({j \in 1..Len(A) : Eq(A[i], A[j])}) = Cardinality({j \in 1..Len(B) : Eq(A[i], B[j])})

=============================================================================
