------------------------------- MODULE Search -------------------------------
(***************************************************************************)
(* The search engine of proto-vulcan: goal construction, streams, the step *)
(* function and the solver loops.                                          *)
(*                                                                         *)
(*   specification operator        Rust                                    *)
(*   ----------------------------  --------------------------------------- *)
(*   ConjNew, FromArray, Build     Conj/DFSConj/InferredConj::new,         *)
(*                                 from_array, from_conjunctions, from_iter*)
(*                                 (src/operator/conj.rs), Disj::from_array*)
(*                                 Conde/Conda/Condu::from_conjunctions,   *)
(*                                 anyo, dfs, onceo (src/operator/*.rs)    *)
(*   SMplus, SBind, LazyBind, ..D  Stream::mplus, bind, lazy_bind, *_dfs   *)
(*                                 (src/stream.rs)                         *)
(*   Step                          StreamEngine::step                      *)
(*   Start, Solve                  Solver::start, Solve::solve of each     *)
(*                                 operator                                *)
(*   Peek, Trunc                   Solver::peek, Solver::trunc             *)
(*   NextStep                      one iteration of the loop of Solver::next*)
(*                                                                         *)
(* Engine goals (after construction):                                      *)
(*   <<"succeed">> <<"fail">> <<"atom", ast>>                              *)
(*   <<"conj",g1,g2>> <<"dconj",g1,g2>> <<"disj",g1,g2>> <<"ddisj",g1,g2>> *)
(*   <<"conde",<<g..>>>> <<"dconde",<<g..>>>> <<"fresh",g>> <<"dfresh",g>> *)
(*   <<"closure",kind,<<ast..>>>> <<"call",kind,name,args>>                *)
(*   <<"anyo",g>> <<"conda",first,rest,next>> <<"condu",first,rest,next>>  *)
(*   <<"project",kind,ids,<<ast..>>>> <<"everyg",kind,id,coll,clauses>>    *)
(*   <<"reified",g,q>> <<"reifyD",q>> <<"forceans",t>> <<"fdtail">>        *)
(*   (state::reified, reify, force_ans, enforce_constraints_fd)            *)
(* Streams: <<"empty">> <<"unit",st>> <<"lazy",lz>> <<"cons",st,lz>>       *)
(* Lazies:  <<"bind",lz,g>> <<"mplus",l1,l2>> <<"pause",st,g>>             *)
(*          <<"bindD",lz,g>> <<"mplusD",l1,l2>> <<"pauseD",st,g>>          *)
(*          <<"delay",stream>>                                             *)
(* A state is a store record of Store.tla/Kanren.tla (with trail and the   *)
(* variable counter `next`).                                               *)
(***************************************************************************)
EXTENDS Kanren, Json

(* what the `show` leaf records of a term: its JSON text when ground *)
ShowOf(t) == IF Ground(t) THEN ToJson(t) ELSE "<nonground>"

Succeed == <<"succeed">>
FailG == <<"fail">>
IsSucceed(g) == g[1] = "succeed"
IsFail(g) == g[1] = "fail"

(* Conj::new / DFSConj::new / InferredConj::new *)
ConjNew(k, a, b) ==
  IF IsSucceed(a) /\ IsSucceed(b) THEN Succeed
  ELSE IF IsFail(a) \/ IsFail(b) THEN FailG
  ELSE <<IF k = "d" THEN "dconj" ELSE "conj", a, b>>

(* from_array / from_vec: right nested with a trailing succeed *)
RECURSIVE FromArray(_, _)
FromArray(k, gs) == IF Len(gs) = 0 THEN Succeed ELSE ConjNew(k, Head(gs), FromArray(k, Tail(gs)))

(* from_iter: nests in REVERSE iteration order (used by everyg) *)
FromIter(k, gs) ==
  LET RECURSIVE Go(_, _)
      Go(i, p) == IF i > Len(gs) THEN p ELSE Go(i + 1, ConjNew(k, gs[i], p))
  IN Go(1, Succeed)

RECURSIVE Build(_, _)
BuildAll(k, gs) == [i \in 1..Len(gs) |-> Build(k, gs[i])]
(* from_conjunctions: conjunction of the per-clause conjunctions *)
FromConjunctions(k, cls) == FromArray(k, [i \in 1..Len(cls) |-> FromArray(k, BuildAll(k, cls[i]))])

DisjFromArray(k, gs) ==
  LET RECURSIVE Go(_)
      Go(i) == IF i > Len(gs) THEN FailG ELSE <<IF k = "d" THEN "ddisj" ELSE "disj", gs[i], Go(i + 1)>>
  IN Go(1)

(* Conda/Condu::from_conjunctions: clauses right to left, empty clauses skipped *)
CommitFrom(tag, cls) ==
  LET RECURSIVE Go(_)
      Go(i) == IF i > Len(cls) THEN FailG
               ELSE IF Len(cls[i]) = 0 THEN Go(i + 1)
               ELSE <<tag, Build("b", cls[i][1]), FromArray("b", BuildAll("b", Tail(cls[i]))), Go(i + 1)>>
  IN Go(1)

(* The goal built by proto_vulcan_query! (macros/src/lib.rs, Query::to_tokens):
     Fresh([__query__], reified(Conj[__query__ == [q1, ..], Conj[body..]], __query__))
   and by the conformance harness, which appends a probe fngoal after reified (harness/src/build.rs,
   query_goal).  V(0) is __query__. *)
QueryGoalP(qvars, body, probe) ==
  LET qs == [i \in 1..Len(qvars) |-> V(qvars[i])]
      inner == FromArray("b", << <<"atom", <<"eq", V(0), ListOf(qs)>> >>,
                                 FromArray("b", BuildAll("b", ElabGs(body))) >>)
  IN IF probe THEN <<"fresh", FromArray("b", << <<"reified", inner, V(0)>>, <<"atom", <<"succeed">> >> >>)>>
     ELSE <<"fresh", <<"reified", inner, V(0)>> >>
QueryGoalOf(qvars, body) == QueryGoalP(qvars, body, TRUE)

(* reify(x) = [enforce_constraints(x), fngoal ..]; enforce_constraints(x) =
   [enforce_constraints_fd(x), U::enforce_constraints(x)] with the default (succeed) user hook;
   enforce_constraints_fd(x) = [force_ans(x), fngoal { .. onceo { force_ans(keys) } }].  The last
   fngoal of reify (substitution reification, store replacement) does not branch and is the identity
   at this level. *)
ReifyGoal(q) ==
  LET fd == FromArray("b", << <<"forceans", q>>, <<"fdtail">> >>)
      enforce == FromArray("b", <<fd, Succeed>>)
  IN FromArray("b", <<enforce, <<"atom", <<"succeed">> >> >>)

Build(k, g) ==
  CASE g[1] = "succeed" -> Succeed
    [] g[1] = "fail" -> FailG
    [] g[1] \in {"probe"} -> <<"atom", <<"succeed">> >>
    [] g[1] = "conj" -> FromArray(k, BuildAll(k, g[2]))
    [] g[1] = "rawconj" -> ConjNew(k, Build(k, g[2]), Build(k, g[3]))
    [] g[1] = "twice" -> FromArray(k, <<Build(k, g[2]), Build(k, g[3])>>)
    [] g[1] = "rawdisj" -> <<IF k = "d" THEN "ddisj" ELSE "disj", Build(k, g[2]), Build(k, g[3])>>
    [] g[1] = "disj" -> DisjFromArray(k, BuildAll(k, g[2]))
    [] g[1] \in {"conde", "cond"} ->
         <<IF k = "d" THEN "dconde" ELSE "conde", [i \in 1..Len(g[2]) |-> FromArray(k, BuildAll(k, g[2][i]))]>>
    [] g[1] = "fresh" -> <<IF k = "d" THEN "dfresh" ELSE "fresh", FromArray(k, BuildAll(k, g[3]))>>
    [] g[1] = "dfs" -> FromConjunctions("d", g[2])
    [] g[1] = "conda" -> CommitFrom("conda", g[2])
    [] g[1] = "condu" -> CommitFrom("condu", g[2])
    [] g[1] = "onceo" -> <<"condu", FromConjunctions("b", g[2]), Succeed, FailG>>
    [] g[1] = "loop" -> <<"anyo", FromConjunctions("b", g[2])>>
    [] g[1] = "always" -> <<"anyo", Succeed>>
    [] g[1] = "never" -> <<"anyo", FailG>>
    [] g[1] = "closure" -> <<"closure", k, g[2]>>
    (* cons and empty are plain equalities built when the goal is constructed (src/relation/cons.rs,
       empty.rs), not closures *)
    [] g[1] = "call" /\ g[2] = "cons" /\ Len(g[3]) = 3 -> <<"atom", <<"eq", <<"cons", g[3][1], g[3][2]>>, g[3][3]>> >>
    [] g[1] = "call" /\ g[2] = "empty" /\ Len(g[3]) = 1 -> <<"atom", <<"eq", <<"nil">>, g[3][1]>> >>
    [] g[1] = "call" -> <<"call", k, g[2], g[3]>>
    [] g[1] = "project" -> <<"project", k, g[2], g[3]>>
    [] g[1] = "for" -> <<"everyg", k, g[2], g[3], g[4]>>
    [] g[1] = "query" -> QueryGoalOf(g[2], g[3])
    [] g[1] = "dom" /\ Norm(g[2])[1] \in {"nil", "cons"} ->
         LET es == Elems(Norm(g[2])) IN
         FromArray(k, [i \in 1..Len(es) |-> <<"atom", <<"dom", es[i], g[3]>> >>])
    [] g[1] = "ltfd" -> FromArray(k, << <<"atom", <<"neqfd", g[2], g[3]>> >>, <<"atom", <<"ltefd", g[2], g[3]>> >> >>)
    [] OTHER -> <<"atom", g>>

-----------------------------------------------------------------------------
(* Stream algebra *)

Empty == <<"empty">>
Unit(a) == <<"unit", a>>
Lazy(l) == <<"lazy", l>>
SCons(a, l) == <<"cons", a, l>>

(* Stream::mplus - note the argument swap on lazy streams *)
SMplus(s, lz) ==
  CASE s[1] = "empty" -> Lazy(lz)
    [] s[1] = "lazy"  -> Lazy(<<"mplus", lz, s[2]>>)
    [] s[1] = "unit"  -> SCons(s[2], lz)
    [] s[1] = "cons"  -> SCons(s[2], <<"mplus", lz, s[3]>>)

(* Stream::mplus_dfs - no swap *)
SMplusD(s, lz) ==
  CASE s[1] = "empty" -> Lazy(lz)
    [] s[1] = "lazy"  -> Lazy(<<"mplusD", s[2], lz>>)
    [] s[1] = "unit"  -> SCons(s[2], lz)
    [] s[1] = "cons"  -> SCons(s[2], <<"mplusD", s[3], lz>>)

LazyBind(l, g) == IF IsSucceed(g) THEN Lazy(l) ELSE IF IsFail(g) THEN Empty ELSE Lazy(<<"bind", l, g>>)
LazyBindD(l, g) == IF IsSucceed(g) THEN Lazy(l) ELSE IF IsFail(g) THEN Empty ELSE Lazy(<<"bindD", l, g>>)

SBind(s, g) ==
  IF IsSucceed(g) THEN s
  ELSE IF IsFail(g) THEN Empty
  ELSE CASE s[1] = "empty" -> Empty
         [] s[1] = "lazy"  -> LazyBind(s[2], g)
         [] s[1] = "unit"  -> Lazy(<<"pause", s[2], g>>)
         [] s[1] = "cons"  -> Lazy(<<"mplus", <<"pause", s[2], g>>, <<"bind", s[3], g>> >>)

SBindD(s, g) ==
  IF IsSucceed(g) THEN s
  ELSE IF IsFail(g) THEN Empty
  ELSE CASE s[1] = "empty" -> Empty
         [] s[1] = "lazy"  -> LazyBindD(s[2], g)
         [] s[1] = "unit"  -> Lazy(<<"pauseD", s[2], g>>)
         [] s[1] = "cons"  -> Lazy(<<"mplusD", <<"pauseD", s[2], g>>, <<"bindD", s[3], g>> >>)

IsMature(s) == s[1] # "lazy"
HasHead(s) == s[1] \in {"unit", "cons"}

-----------------------------------------------------------------------------
(* Solving.  Every operator below returns [s: stream, t: ticks of nested peek/trunc loops,
   cut: a nested loop ran out of fuel]; D is the table of relations defined by the case. *)

Res(s, t, cut) == [s |-> s, t |-> t, cut |-> cut]

RECURSIVE Solve(_, _, _, _)
RECURSIVE Step(_, _, _)
RECURSIVE Mature(_, _, _, _)

Start(g, st, fuel, D) == Solve(g, st, fuel, D)

(* Solver::peek / trunc: step until the stream is mature *)
Mature(s, fuel, D, t) ==
  IF IsMature(s) THEN Res(s, t + 1, FALSE)
  ELSE IF fuel = 0 THEN Res(s, t, TRUE)
  ELSE LET r == Step(s[2], fuel - 1, D) IN
       IF r.cut THEN Res(r.s, t + 1 + r.t, TRUE) ELSE Mature(r.s, fuel - 1, D, t + 1 + r.t)

(* conde: clauses are solved from the last to the second, then the first;
   stream = mplus(clause.solve(state), delay(stream)) each time *)
SolveConde(gs, st, fuel, D, dfs) ==
  LET RECURSIVE Go(_, _)
      Go(i, acc) ==
        IF i = 0 THEN acc
        ELSE LET r == Solve(gs[i], st, fuel, D)
                 m == IF dfs THEN SMplusD(r.s, <<"delay", acc.s>>) ELSE SMplus(r.s, <<"delay", acc.s>>)
             IN Go(i - 1, Res(m, acc.t + r.t, acc.cut \/ r.cut))
  IN Go(Len(gs), Res(Empty, 0, FALSE))

Solve(g, st, fuel, D) ==
  CASE g[1] = "succeed" -> Res(Unit(st), 0, FALSE)
    [] g[1] = "fail" -> Res(Empty, 0, FALSE)
    [] g[1] = "atom" ->
         (IF g[2][1] = "show"
          THEN Res(Unit([st EXCEPT !.u.trail = Append(@, ShowOf(WalkStar(Norm(g[2][2]), st.smap)))]), 0, FALSE)
          ELSE IF g[2][1] = "isnum"
          THEN Res(IF IsNum(Norm(g[2][2])) THEN Unit(st) ELSE Empty, 0, FALSE)
          ELSE IF g[2][1] = "isground"
          THEN Res(IF Ground(Norm(g[2][2])) THEN Unit(st) ELSE Empty, 0, FALSE)
          ELSE LET S1 == Post(st, g[2]) IN Res(IF S1.ok THEN Unit(S1) ELSE Empty, 0, FALSE))
    [] g[1] = "conj"  -> Res(LazyBind(<<"pause", st, g[2]>>, g[3]), 0, FALSE)
    [] g[1] = "dconj" -> Res(LazyBindD(<<"pauseD", st, g[2]>>, g[3]), 0, FALSE)
    [] g[1] = "disj"  -> Res(Lazy(<<"mplus", <<"pause", st, g[2]>>, <<"pause", st, g[3]>> >>), 0, FALSE)
    [] g[1] = "ddisj" -> Res(Lazy(<<"mplusD", <<"pauseD", st, g[2]>>, <<"pauseD", st, g[3]>> >>), 0, FALSE)
    [] g[1] = "conde"  -> SolveConde(g[2], st, fuel, D, FALSE)
    [] g[1] = "dconde" -> SolveConde(g[2], st, fuel, D, TRUE)
    [] g[1] = "fresh"  -> Res(Lazy(<<"pause", st, g[2]>>), 0, FALSE)
    [] g[1] = "dfresh" -> Res(Lazy(<<"pauseD", st, g[2]>>), 0, FALSE)
    [] g[1] = "closure" -> Solve(FromArray(g[2], BuildAll(g[2], g[3])), st, fuel, D)
    [] g[1] = "call" ->
         LET def == DefOf(g[3], D)
             body == Unfold(def, g[4], st.next)
         IN Solve(FromArray(g[2], <<Build(g[2], body)>>), [st EXCEPT !.next = @ + Len(def.locals)], fuel, D)
    [] g[1] = "anyo" ->
         (* conde { g, anyo { g } } through the macro: two more Conj{., succeed} layers *)
         LET inner == ConjNew("b", ConjNew("b", g[2], Succeed), Succeed) IN
         Solve(<<"conde", << ConjNew("b", g[2], Succeed), ConjNew("b", <<"anyo", inner>>, Succeed) >> >>,
               st, fuel, D)
    [] g[1] = "conda" ->
         LET h == Solve(g[2], st, fuel, D)
             p == IF h.cut THEN h ELSE Mature(h.s, fuel, D, h.t)
         IN IF p.cut THEN p
            ELSE IF HasHead(p.s) THEN Res(SBind(p.s, g[3]), p.t, FALSE)
            ELSE LET n == Solve(g[4], st, fuel, D) IN Res(n.s, p.t + n.t, n.cut)
    [] g[1] = "condu" ->
         LET h == Solve(g[2], st, fuel, D)
             p == IF h.cut THEN h ELSE Mature(h.s, fuel, D, h.t)
         IN IF p.cut THEN p
            ELSE IF HasHead(p.s) THEN Res(SBind(Unit(p.s[2]), g[3]), p.t, FALSE)
            ELSE LET n == Solve(g[4], st, fuel, D) IN Res(n.s, p.t + n.t, n.cut)
    [] g[1] = "project" ->
         LET ren == [v \in {V(g[3][i]) : i \in 1..Len(g[3])} |-> WalkStar(v, st.smap)]
             body == SubstGs(g[4], ren)
         IN Solve(FromArray(g[2], [i \in 1..Len(body) |-> FromArray(g[2], <<Build(g[2], body[i])>>)]),
                  st, fuel, D)
    [] g[1] = "everyg" ->
         LET gs == [i \in 1..Len(g[4]) |-> FromConjunctions(g[2], SubstCl(g[5], (V(g[3]) :> g[4][i])))]
         IN Solve(FromIter(g[2], gs), st, fuel, D)
    (* state::reified: the answers of g are bound DEPTH-FIRST to the reification, which is a finite
       search: they are reified one after the other in the order in which g produces them *)
    [] g[1] = "reified" ->
         LET r == Solve(g[2], st, fuel, D) IN Res(SBindD(r.s, <<"reifyD", g[3]>>), r.t, r.cut)
    [] g[1] = "reifyD" -> Solve(ReifyGoal(g[2]), st, fuel, D)
    (* force_ans: a domain variable is labelled through map_sum (values in ascending order, built
       like a conde from the last value to the first); lists and compounds element by element *)
    [] g[1] = "forceans" ->
         LET w == Walk(g[2], st.smap) IN
         IF IsVar(w) /\ w \in DOMAIN st.ds
         THEN LET vals == SortSeq(SetToSeq(st.ds[w]), LAMBDA a, b : a < b) IN
              SolveConde([i \in 1..Len(vals) |-> <<"atom", <<"eq", Num(vals[i]), w>> >>], st, fuel, D, FALSE)
         ELSE IF w[1] = "cons"
         THEN Solve(FromArray("b", << <<"forceans", w[2]>>, <<"forceans", w[3]>> >>), st, fuel, D)
         ELSE IF w[1] = "cmp"
         THEN Solve(FromArray("b", [i \in 1..Len(w[3]) |-> <<"forceans", w[3][i]>>]), st, fuel, D)
         ELSE Res(Unit(st), 0, FALSE)
    (* the second fngoal of enforce_constraints_fd: onceo { force_ans(list of the domain variables) };
       the library lists them in hash order, the specification in sorted order *)
    [] g[1] = "fdtail" ->
         Solve(<<"condu", FromArray("b", <<FromArray("b", << <<"forceans", ListOf(SetToSeq(DOMAIN st.ds))>> >>)>>),
                 Succeed, FailG>>, st, fuel, D)

(* StreamEngine::step *)
Step(lz, fuel, D) ==
  CASE lz[1] = "mplus"  -> LET r == Step(lz[2], fuel, D) IN Res(SMplus(r.s, lz[3]), r.t, r.cut)
    [] lz[1] = "mplusD" -> LET r == Step(lz[2], fuel, D) IN Res(SMplusD(r.s, lz[3]), r.t, r.cut)
    [] lz[1] = "bind"   -> LET r == Step(lz[2], fuel, D) IN Res(SBind(r.s, lz[3]), r.t, r.cut)
    [] lz[1] = "bindD"  -> LET r == Step(lz[2], fuel, D) IN Res(SBindD(r.s, lz[3]), r.t, r.cut)
    [] lz[1] \in {"pause", "pauseD"} -> Start(lz[3], lz[2], fuel, D)
    [] lz[1] = "delay"  -> Res(lz[2], 0, FALSE)

-----------------------------------------------------------------------------
(* Running a goal to the end (or until `take` answers / `fuel` loop iterations).
   Returns [out: emitted states in emission order, ticks: tick at each emission,
   end: "exhausted" | "take" | "fuel", total: ticks spent]. *)

RunStream(s0, take, fuel, D) ==
  LET RECURSIVE Go(_, _, _, _, _)
      Go(s, out, tks, t, f) ==
        IF Len(out) >= take THEN [out |-> out, ticks |-> tks, end |-> "take", total |-> t]
        ELSE IF f = 0 THEN [out |-> out, ticks |-> tks, end |-> "fuel", total |-> t]
        ELSE CASE s[1] = "empty" -> [out |-> out, ticks |-> tks, end |-> "exhausted", total |-> t + 1]
               [] s[1] = "unit"  -> Go(Empty, Append(out, s[2]), Append(tks, t + 1), t + 1, f - 1)
               [] s[1] = "cons"  -> Go(Lazy(s[3]), Append(out, s[2]), Append(tks, t + 1), t + 1, f - 1)
               [] s[1] = "lazy"  ->
                    LET r == Step(s[2], f, D) IN
                    IF r.cut THEN [out |-> out, ticks |-> tks, end |-> "fuel", total |-> t + 1 + r.t]
                    ELSE Go(r.s, out, tks, t + 1 + r.t, f - 1)
  IN Go(s0, <<>>, <<>>, 0, fuel)

(* constructor skeleton of a stream: states shown by their trail, goals omitted (what the
   engine observer of the harness records at every iteration of Solver::next) *)
RECURSIVE SkelL(_)
RECURSIVE SkelS(_)
SkelL(l) ==
  CASE l[1] \in {"bind", "bindD"} -> <<l[1], SkelL(l[2])>>
    [] l[1] \in {"mplus", "mplusD"} -> <<l[1], SkelL(l[2]), SkelL(l[3])>>
    [] l[1] \in {"pause", "pauseD"} -> <<l[1], l[2].u.trail>>
    [] l[1] = "delay" -> <<"delay", SkelS(l[2])>>
SkelS(s) ==
  CASE s[1] = "empty" -> <<"empty">>
    [] s[1] = "unit" -> <<"unit", s[2].u.trail>>
    [] s[1] = "lazy" -> <<"lazy", SkelL(s[2])>>
    [] s[1] = "cons" -> <<"cons", s[2].u.trail, SkelL(s[3])>>

(* the stream after one iteration of the loop of Solver::next *)
AfterNext(s, fuel, D) ==
  CASE s[1] = "empty" -> s
    [] s[1] = "unit" -> Empty
    [] s[1] = "cons" -> Lazy(s[3])
    [] s[1] = "lazy" -> Step(s[2], fuel, D).s

DefsOf(case) == IF "defs" \in DOMAIN case THEN case.defs ELSE [x \in {} |-> x]

RunGoal(ast, take, fuel, D) ==
  LET r == Solve(Build("b", ast), InitK(0), fuel, D) IN
  IF r.cut THEN [out |-> <<>>, ticks |-> <<>>, end |-> "fuel", total |-> r.t]
  ELSE RunStream(r.s, take, fuel, D)

=============================================================================
