#!/usr/bin/env python3
"""Prints the measured-cost table of DESIGN.md section 9 from the evidence files of the last quick sweep."""
import json, os
ROOT = os.path.dirname(os.path.dirname(os.path.abspath(__file__)))
print("| check | flow A: distinct states (TLC runs) | cases executed | records judged | engine steps validated | wall |")
print("|-------|------------------------------------|----------------|----------------|------------------------|------|")
tot = [0, 0, 0, 0]
for i in range(1, 25):
    p = "C%02d" % i
    e = json.load(open(os.path.join(ROOT, "evidence", p + ".json")))
    c = e["coverage"]
    fa = c.get("flow_A", [])
    st = sum(m["distinct_states"] for m in fa)
    print("| %s | %s | %d | %d | %d | %d s |" % (p, ("%d (%d)" % (st, len(fa))) if fa else "reference only", c["cases_executed"],
                                             c["evaluations"], c.get("engine_steps_validated", 0), round(e["wall_s"])))
    tot[0] += st; tot[1] += c["cases_executed"]; tot[2] += c["evaluations"]; tot[3] += c.get("engine_steps_validated", 0)
print("| all | %d | %d | %d | %d | |" % tuple(tot))
