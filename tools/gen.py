"""Seeded random case generators (python side of flow B).  They only produce well-formed
programs (DESIGN 3.5 WellFormed); judgement is never done here."""
import itertools
import random

NUMS = [0, 1, 2, 5, 6, 7, -1]
SYMS = ["b:true", "b:false", "c:a", "c:1", "s:a", "s:1", "s:foo"]
CMP_ARITY = {"Pair": 2, "Box1": 1, "Node": 2, "Tree": 3, "Tuple": 2}


def var(i):
    return ["var", i]


class TermGen:
    def __init__(self, rng, vars_, compounds=True, syms=True, wrap=False, nums=None):
        self.rng = rng
        self.vars = list(vars_)
        self.compounds = compounds
        self.syms = syms
        self.wrap = wrap
        self.nums = nums or NUMS
        self.any_next = 900

    def atom(self):
        r = self.rng.random()
        if r < 0.45 and self.vars:
            return var(self.rng.choice(self.vars))
        if r < 0.75 or not self.syms:
            return ["num", self.rng.choice(self.nums)]
        if r < 0.9:
            return ["sym", self.rng.choice(SYMS)]
        return ["nil"]

    def term(self, depth):
        if depth <= 0 or self.rng.random() < 0.35:
            return self.atom()
        r = self.rng.random()
        if r < 0.45:
            n = self.rng.randint(0, 3)
            return ["list", [self.term(depth - 1) for _ in range(n)]]
        if r < 0.6:
            n = self.rng.randint(2, 3)
            return ["ilist", [self.term(depth - 1) for _ in range(n)]]
        if r < 0.7:
            return ["cons", self.term(depth - 1), self.term(depth - 1)]
        if self.compounds:
            if self.wrap and self.rng.random() < 0.15:
                return ["cmp", "Wrap", [self.term(depth - 1)]]
            if self.wrap and self.rng.random() < 0.25:
                # a struct with an optional field: Some(..) and None have one and zero children
                opt = ["cmp", "Some", [self.term(depth - 1)]] if self.rng.random() < 0.55 else ["cmp", "None", []]
                return ["cmp", "Slot", [self.term(depth - 1), opt]]
            ty = self.rng.choice(sorted(CMP_ARITY))
            return ["cmp", ty, [self.term(depth - 1) for _ in range(CMP_ARITY[ty])]]
        return self.atom()


def tree_goal(tg, depth, p_neq=0.45):
    tag = "neq" if tg.rng.random() < p_neq else "eq"
    # bias towards goals that relate a variable to something
    if tg.vars and tg.rng.random() < 0.5:
        a = var(tg.rng.choice(tg.vars))
    else:
        a = tg.term(depth)
    b = tg.term(depth)
    if tg.rng.random() < 0.5:
        a, b = b, a
    return [tag, a, b]


def flat_tree_program(rng, nvars, ngoals, depth, p_neq=0.45, compounds=True, wrap=False):
    tg = TermGen(rng, range(1, nvars + 1), compounds=compounds, wrap=wrap)
    return [tree_goal(tg, depth, p_neq) for _ in range(ngoals)]


def permutations_of(goals, rng, limit):
    """All permutations for <= 4 goals, `limit` random ones otherwise (identity first)."""
    if len(goals) <= 4:
        perms = list(itertools.permutations(range(len(goals))))
        if len(perms) > limit:
            perms = [perms[0]] + rng.sample(perms[1:], limit - 1)
    else:
        perms = [tuple(range(len(goals)))]
        for _ in range(limit - 1):
            p = list(range(len(goals)))
            rng.shuffle(p)
            perms.append(tuple(p))
    return [[goals[i] for i in p] for p in perms]


def nested_tree_program(rng, nq, depth, size, next_var=None, compounds=True):
    """eq/neq goals under conde and fresh; returns (body, all variable ids)."""
    state = {"next": (next_var or nq + 1)}

    def block(vars_, budget, level):
        goals = []
        tg = TermGen(rng, vars_, compounds=compounds)
        while budget > 0:
            r = rng.random()
            if level < 2 and budget >= 3 and r < 0.2:
                ncl = rng.randint(2, 3)
                cls = []
                for _ in range(ncl):
                    b = rng.randint(1, max(1, budget // ncl))
                    cls.append(block(vars_, b, level + 1))
                    budget -= b
                goals.append(["conde", cls])
            elif level < 2 and budget >= 2 and r < 0.35:
                n = rng.randint(1, 2)
                ids = list(range(state["next"], state["next"] + n))
                state["next"] += n
                b = rng.randint(1, budget)
                goals.append(["fresh", ids, block(list(vars_) + ids, b, level + 1)])
                budget -= b
            else:
                goals.append(tree_goal(tg, depth))
                budget -= 1
        return goals

    body = block(list(range(1, nq + 1)), size, 0)
    return body


def store_ops(rng, nvars, nops, depth, p_neq=0.4, compounds=True, wrap=False):
    tg = TermGen(rng, range(1, nvars + 1), compounds=compounds, wrap=wrap)
    ops = []
    for _ in range(nops):
        g = tree_goal(tg, depth, p_neq)
        ops.append(["unify" if g[0] == "eq" else "disunify", g[1], g[2]])
    return ops


def vars_in(x, acc=None):
    acc = set() if acc is None else acc
    if isinstance(x, list):
        if len(x) == 2 and x[0] in ("var", "any") and isinstance(x[1], int):
            acc.add(x[1])
        else:
            for y in x:
                vars_in(y, acc)
    return acc


# --------------------------------------------------------------------------- search programs

def small_list(rng, tg, maxlen=3):
    n = rng.randint(0, maxlen)
    return ["list", [tg.atom() for _ in range(n)]]


def lib_goal(rng, tg):
    """A call of a library relation in a mode with finitely many answers."""
    r = rng.random()
    v = lambda: var(rng.choice(tg.vars))
    if r < 0.35:
        return ["call", "member", [v() if rng.random() < 0.8 else tg.atom(), small_list(rng, tg)]]
    if r < 0.55:
        return ["call", "append", [v(), v(), small_list(rng, tg)]]
    if r < 0.7:
        return ["call", "append", [small_list(rng, tg, 2), small_list(rng, tg, 2), v()]]
    if r < 0.8:
        return ["call", "member1", [v(), small_list(rng, tg)]]
    if r < 0.9:
        return ["call", "rember", [tg.atom(), small_list(rng, tg), v()]]
    return ["call", "cons", [v(), v(), small_list(rng, tg)]]


def search_program(rng, nq, size, dfs=False, lib=True, leafs=False):
    """Goals mixing eq/neq, conde (cond when dfs), fresh, library calls; finite search tree."""
    state = {"next": nq + 1, "leaf": 0}
    disj = "cond" if dfs else "conde"

    def block(vars_, budget, level):
        goals = []
        tg = TermGen(rng, vars_, compounds=False, syms=False, nums=[1, 2, 3])
        while budget > 0:
            r = rng.random()
            if level < 2 and budget >= 2 and r < 0.3:
                ncl = rng.randint(2, 3)
                cls = []
                for _ in range(ncl):
                    b = rng.randint(1, max(1, budget // ncl))
                    cls.append(block(vars_, b, level + 1))
                    budget -= b
                goals.append([disj, cls])
            elif level < 2 and budget >= 2 and r < 0.4:
                ids = [state["next"]]
                state["next"] += 1
                b = rng.randint(1, budget)
                goals.append(["fresh", ids, block(list(vars_) + ids, b, level + 1)])
                budget -= b
            elif lib and r < 0.65:
                goals.append(lib_goal(rng, tg))
                budget -= 1
            elif leafs and r < 0.75:
                state["leaf"] += 1
                goals.append(["leaf", "l%d" % state["leaf"]])
                budget -= 1
            else:
                goals.append(tree_goal(tg, 1, p_neq=0.3))
                budget -= 1
        return goals

    return block(list(range(1, nq + 1)), size, 0)


def sched_tree_program(rng, nvars=5):
    """Several disequalities over pairs with shared variables, then unifications that bind two
    variables at once: the shape in which the ORDER of re-running stored constraints matters."""
    vs = list(range(1, nvars + 1))
    if rng.random() < 0.5:
        # template: one unification (i) reduces disequality A so that it subsumes (or is subsumed
        # by) a stored disequality B - B or A leaves the store in the middle of the re-run pass -
        # and (ii) decides a third disequality C
        x, y, z, w, v = rng.sample(vs, 5)
        a, b, c = rng.sample([1, 2, 3, 4], 3)
        A = ["neq", ["list", [var(x), var(y)]], ["list", [["num", a], ["num", b]]]]
        B = rng.choice([
            ["neq", ["list", [var(y), var(z)]], ["list", [["num", b], ["num", c]]]],
            ["neq", ["list", [var(z), var(y)]], ["list", [["num", c], ["num", b]]]],
            ["neq", ["list", [var(y), var(z), var(z)]], ["list", [["num", b], ["num", c], var(v)]]],
        ])
        C = rng.choice([["neq", var(w), var(v)], ["neq", var(w), ["num", c]], ["neq", ["list", [var(w), var(z)]], ["list", [var(v), var(z)]]]])
        neqs = [A, B, C]
        if rng.random() < 0.4:
            neqs.append(["neq", var(z), ["num", rng.choice([a, b, c])]])
        rng.shuffle(neqs)
        rhs_w = var(v) if C[2] == var(v) or C[1][0] == "list" else ["num", c]
        eqs = [["eq", ["list", [var(x), var(w)]], ["list", [["num", a], rhs_w]]]]
        if rng.random() < 0.3:
            eqs.append(["eq", var(y), ["num", rng.choice([a, b])]])
        return neqs + eqs, nvars

    def atom():
        return var(rng.choice(vs)) if rng.random() < 0.7 else ["num", rng.choice([1, 2, 3])]

    def side():
        return ["list", [atom(), atom()]] if rng.random() < 0.6 else atom()

    goals = []
    for _ in range(rng.randint(3, 4)):
        a, b = side(), side()
        goals.append(["neq", a, b])
    for _ in range(rng.randint(1, 2)):
        goals.append(["eq", ["list", [atom(), atom()]], ["list", [atom(), atom()]]])
    return goals, nvars


# --------------------------------------------------------------------------- CLP(FD) / CLP(Z)

def fd_domain(rng, lo, hi):
    r = rng.random()
    if r < 0.55:
        a = rng.randint(lo, hi)
        b = rng.randint(a, min(hi, a + 4))
        return ["itv", a, b]
    vals = [rng.randint(lo, hi) for _ in range(rng.randint(1, 4))]
    return ["vec", vals]


def fd_operand(rng, vs, lo, hi, p_const=0.25):
    if rng.random() < p_const:
        return ["num", rng.randint(lo, hi)]
    return var(rng.choice(vs))


def fd_constraint(rng, vs, lo, hi):
    k = rng.choice(["ltefd", "ltfd", "neqfd", "plusfd", "minusfd", "timesfd", "plusfd", "timesfd", "distinctfd"])
    o = lambda: fd_operand(rng, vs, max(lo, -3), min(hi, 3))
    if k in ("ltefd", "ltfd", "neqfd"):
        return [k, o(), o()]
    if k == "distinctfd":
        n = rng.randint(2, min(4, len(vs) + 1))
        return [k, ["list", [o() for _ in range(n)]]]
    return [k, o(), o(), o()]


def fd_program(rng, nvars, ncons, lo, hi, n_eq=1):
    """Every variable gets a domain (well-formed for labelling); goals in random order."""
    vs = list(range(1, nvars + 1))
    goals = [["dom", var(v), fd_domain(rng, lo, hi)] for v in vs]
    if nvars >= 2 and rng.random() < 0.3:
        goals = [["dom", ["list", [var(v) for v in vs[:2]]], fd_domain(rng, lo, hi)]] + goals[2:]
    goals += [fd_constraint(rng, vs, lo, hi) for _ in range(ncons)]
    for _ in range(rng.randint(0, n_eq)):
        r = rng.random()
        if r < 0.4 and nvars >= 2:
            a, b = rng.sample(vs, 2)
            goals.append(["eq", var(a), var(b)])
        elif r < 0.7:
            goals.append(["eq", var(rng.choice(vs)), ["num", rng.randint(lo, hi)]])
        elif nvars >= 2:
            a, b = rng.sample(vs, 2)
            goals.append(["eq", ["list", [var(a), var(b)]], ["list", [var(b), ["num", rng.randint(lo, hi)]]]])
    # now and then a second domain for a variable that already has one (interval vs sparse)
    if rng.random() < 0.35:
        goals.append(["dom", var(rng.choice(vs)), fd_domain(rng, lo, hi)])
    # now and then a value (or another variable) reaches a constrained variable through an ALIAS that has no
    # domain and occurs in no constraint: x == a, a == 3 (in any order, either orientation)
    if rng.random() < 0.3:
        a = 90
        v = rng.choice(vs)
        goals.append(["eq", var(v), var(a)] if rng.random() < 0.6 else ["eq", var(a), var(v)])
        if rng.random() < 0.75:
            goals.append(["eq", var(a), ["num", rng.randint(lo, hi)]] if rng.random() < 0.6 else ["eq", ["num", rng.randint(lo, hi)], var(a)])
        elif nvars >= 2:
            goals.append(["eq", var(a), var(rng.choice([x for x in vs if x != v]))])
        rng.shuffle(goals)
        return [["fresh", [a], goals]]
    rng.shuffle(goals)
    return goals


def collapse_neq_program(rng):
    """Several multi-pair disequalities over a chain of variables, then ONE unification that decides the outer
    variables: the stored constraints shrink to constraints on the shared middle variables, often to the very same
    constraint (one then subsumes the other in the middle of a run_constraints pass).  Returns (goals, nvars)."""
    n = rng.randint(2, 3)                       # number of disequalities
    vs = list(range(1, n + 2))                  # chain x1 .. x(n+1)
    val = lambda: ["num", rng.randint(1, 2)]
    goals = []
    for i in range(n):
        a, b = vs[i], vs[i + 1]
        if rng.random() < 0.5:
            a, b = b, a
        goals.append(["neq", ["list", [var(a), var(b)]], ["list", [val(), val()]]])
    outer = [vs[0], vs[-1]] if n == 2 else rng.choice([[vs[0], vs[-1]], [vs[0], vs[2]], [vs[1], vs[-1]], [vs[0], vs[1], vs[-1]]])
    goals.append(["eq", ["list", [var(v) for v in outer]], ["list", [val() for _ in outer]]])
    if rng.random() < 0.4:
        goals.append(["eq", var(rng.choice(vs)), val()])
    return goals, len(vs)


def fd_alias_program(rng):
    """A constraint on x, a value that reaches x through an alias variable (x == a, a == n), and x's domain:
    four goals (seven with a second variable) whose every order must give the same answers.  Returns (goals, nq);
    the alias variables 90/91 are declared by the caller's fresh block."""
    lo, hi = rng.choice([(1, 3), (0, 2), (-1, 2)])
    k = lambda: ["num", rng.randint(lo, hi)]
    two = rng.random() < 0.35
    x, y, a, b = var(1), var(2), var(90), var(91)
    if two:
        c = rng.choice([["neqfd", x, y], ["ltefd", x, y], ["distinctfd", ["list", [x, y]]], ["plusfd", x, y, k()]])
    else:
        c = rng.choice([["neqfd", x, k()], ["neqfd", k(), x], ["ltefd", x, k()], ["ltefd", k(), x],
                        ["plusfd", x, k(), k()], ["minusfd", k(), x, k()], ["distinctfd", ["list", [x, k()]]]])
    goals = [c, ["eq", x, a], ["eq", a, k()], ["dom", x, ["itv", lo, hi]]]
    if two:
        goals += [["eq", y, b], ["eq", b, k()], ["dom", y, ["itv", lo, hi]]]
    return goals, (2 if two else 1), ([90, 91] if two else [90])


def fd_collapse_program(rng):
    """Sparse two/three-value domains with wide gaps: bounds propagation alone often decides every
    variable (no labelling unification follows), which is where a stale or missing re-check of a
    propagator shows up in the answers."""
    nv = rng.randint(2, 3)
    vs = list(range(1, nv + 1))
    goals = []
    for v in vs:
        k = rng.randint(2, 3)
        goals.append(["dom", var(v), ["vec", sorted(rng.sample(range(-20, 21), k))]])
    kind = rng.choice(["plusfd", "minusfd", "timesfd", "plusfd", "minusfd"])
    ops = [var(v) for v in vs]
    while len(ops) < 3:
        ops.insert(rng.randint(0, len(ops)), ["num", rng.randint(-12, 12) if kind != "timesfd" else rng.randint(-4, 4)])
    rng.shuffle(ops)
    goals.append([kind] + ops)
    if rng.random() < 0.3:
        goals.append(fd_constraint(rng, vs, -3, 3))
    rng.shuffle(goals)
    return goals, nv


# --------------------------------------------------------------------------- surface programs

def pattern_pair(rng, pvars, anyc):
    """Two pattern shapes over the same variables pvars (1 or 2 ids); anyc() gives a new wildcard."""
    a = var(pvars[0])
    b = var(pvars[1]) if len(pvars) > 1 else None
    lit = lambda: rng.choice([["num", 1], ["num", 2], ["sym", "s:k"], ["sym", "b:true"], ["sym", "c:z"]])
    if b is None:
        shapes = [["list", [a]], ["list", [a, anyc()]], ["ilist", [anyc(), a]], ["list", [a, a]], ["cmp", "Box1", [a]],
                  ["cmp", "Pair", [lit(), a]], ["ilist", [a, lit(), anyc()]], a, ["list", [lit(), a]],
                  ["list", [["list", [a]], anyc()]]]
    else:
        shapes = [["list", [a, b]], ["ilist", [a, b]], ["list", [b, a]], ["list", [a, b, a]], ["cmp", "Pair", [a, b]],
                  ["ilist", [a, lit(), b]], ["list", [["list", [a]], b]], ["cmp", "Pair", [["list", [a]], ["cmp", "Box1", [b]]]],
                  ["list", [a, anyc(), b]]]
    return rng.sample(shapes, 2)


def match_program(rng, idx):
    """A query built around one match / matche / matcha / matchu expression."""
    nq = rng.randint(1, 2)
    state = {"next": 10, "any": 900}

    def fresh_id():
        state["next"] += 1
        return state["next"]

    def anyc():
        state["any"] += 1
        return ["any", state["any"]]

    op = rng.choice(["match", "match", "matche", "matcha", "matchu"])
    names = {}
    tg = TermGen(rng, [1] if nq == 1 else [1, 2], compounds=True, syms=True, nums=[1, 2, 3])
    # the matched term: a query variable (possibly bound by the prefix) or a small term over them
    r = rng.random()
    prefix = []
    if r < 0.5:
        mterm = var(1)
        if rng.random() < 0.7:
            val = rng.choice([["list", [["num", 1], ["num", 2]]], ["list", [["num", 1]]], ["nil"], ["num", 1],
                              ["cmp", "Pair", [["num", 1], ["num", 2]]], ["cmp", "Box1", [["num", 2]]],
                              ["ilist", [["num", 1], ["num", 2], var(nq)]], ["list", [["num", 1], ["num", 2], ["num", 1]]],
                              ["list", [["list", [["num", 2]]], ["num", 2]]]])
            prefix = [["eq", var(1), val]] if rng.random() < 0.7 else [["conde", [[["eq", var(1), val]], [["eq", var(1), ["list", [["num", 2], ["num", 1]]]]]]]]
    elif r < 0.8:
        mterm = ["list", [var(1), var(nq)]]
        prefix = [["eq", var(1), rng.choice([["num", 1], ["list", [["num", 1]]], ["sym", "s:k"]])]] if rng.random() < 0.5 else []
    else:
        mterm = ["cons", var(1), var(nq)]
    arms = []
    for _ in range(rng.randint(1, 3)):
        k = rng.randint(0, 2)
        pv = [fresh_id() for _ in range(k)]
        if k == 0:
            pats = [rng.choice([["nil"], ["num", 1], ["list", [["num", 1], anyc()]], ["ilist", [anyc(), anyc()]], anyc(),
                                ["cmp", "Pair", [anyc(), ["num", 2]]], ["sym", "s:k"]])]
            if rng.random() < 0.3:
                pats.append(rng.choice([["nil"], ["list", [anyc()]], ["num", 2]]))
        else:
            two = pattern_pair(rng, pv, anyc)
            pats = two if rng.random() < 0.4 else two[:1]
        # shadowing: a pattern variable may carry the NAME of an outer query variable
        shadowed = set()
        for p in pv:
            if rng.random() < 0.35:
                o = rng.randint(1, nq)
                if o in shadowed:
                    continue          # two variables of one arm must keep different names
                names[str(p)] = "v%d" % o
                shadowed.add(o)
        usable = [q for q in range(1, nq + 1) if q not in shadowed] + pv
        body = []
        for _ in range(rng.randint(0, 2)):
            if not usable:
                break
            a = var(rng.choice(usable))
            b = rng.choice([["num", rng.randint(1, 3)], var(rng.choice(usable)), ["list", [var(rng.choice(usable))]]])
            body.append([rng.choice(["eq", "eq", "neq"]), a, b])
        if rng.random() < 0.15:
            # an arm whose body contains the literal `false` (under matcha / matchu it still commits)
            body.insert(rng.randint(0, len(body)), ["fail"])
        elif rng.random() < 0.08:
            body.insert(rng.randint(0, len(body)), ["succeed"])
        arms.append({"pats": pats, "vars": pv, "body": body})
    body = prefix + [["match", op, mterm, arms]]
    if rng.random() < 0.3:
        body.append(["neq", var(nq), ["num", 2]])
    return {"id": "m%d" % idx, "backend": "surface", "kind": "program", "mode": "query", "qvars": list(range(1, nq + 1)),
            "body": body, "names": names, "after": 1, "budget": 200000}


REL_TEMPLATES = {
    # dup(l, out): every element twice
    "dup": {"params": [1, 2], "locals": [3, 4, 5],
            "body": [["match", "match", ["var", 1], [
                {"pats": [["nil"]], "vars": [], "body": [["eq", ["var", 2], ["nil"]]]},
                {"pats": [["cons", ["var", 3], ["var", 4]]], "vars": [3, 4],
                 "body": [["fresh", [5], [["eq", ["var", 2], ["ilist", [["var", 3], ["var", 3], ["var", 5]]]],
                                          ["call", "dup", [["var", 4], ["var", 5]]]]]]}]]]},
    # pairs(l, out): out is the list of [x, fresh] pairs - one fresh variable per element
    "pairs": {"params": [1, 2], "locals": [3, 4, 5, 6],
              "body": [["conde", [[["eq", ["var", 1], ["nil"]], ["eq", ["var", 2], ["nil"]]],
                                  [["fresh", [3, 4, 5, 6], [["eq", ["var", 1], ["cons", ["var", 3], ["var", 4]]],
                                                            ["eq", ["var", 2], ["cons", ["list", [["var", 3], ["var", 5]]], ["var", 6]]],
                                                            ["call", "pairs", [["var", 4], ["var", 6]]]]]]]]]},
    # lastof(l, x): x is the last element
    "lastof": {"params": [1, 2], "locals": [3, 4, 5, 901],
               "body": [["match", "match", ["var", 1], [
                   {"pats": [["list", [["var", 3]]]], "vars": [3], "body": [["eq", ["var", 3], ["var", 2]]]},
                   {"pats": [["cons", ["any", 901], ["var", 4]]], "vars": [4],
                    "body": [["fresh", [5], [["eq", ["var", 5], ["var", 4]], ["call", "lastof", [["var", 5], ["var", 2]]]]]]}]]]},
}


def rel_program(rng, idx, shadow):
    """A query calling a recursive relation whose body introduces fresh variables; when `shadow`
    the relation's local names coincide with the caller's names (the twin has unique names)."""
    rel = rng.choice(sorted(REL_TEMPLATES))
    d = REL_TEMPLATES[rel]
    lst = ["list", [rng.choice([["num", 1], ["num", 2], ["sym", "s:k"], var(2)]) for _ in range(rng.randint(0, 3))]]
    nq = 2
    body = []
    if rel == "lastof" and not lst[1]:
        lst = ["list", [["num", 1]]]
    mode = rng.random()
    if mode < 0.6:
        body.append(["call", rel, [lst, var(1)]])
    else:
        body.append(["fresh", [7], [["eq", var(7), lst], ["call", rel, [var(7), var(1)]]]])
    if rng.random() < 0.4:
        body.append(["fresh", [8], [["eq", var(8), var(2)], ["neq", var(8), ["num", 2]]]])
    names = {}
    if shadow:
        # locals of the relation named like the caller's variables; caller's fresh variables
        # named like the query variables of sibling scopes
        # the relation's locals carry the names of the CALLER's variables (v1, v2, v7, v8); its
        # parameters get names of their own; a sibling fresh block of the caller re-uses v7
        pool = ["v1", "v2", "v7", "v8"]
        for i, l in enumerate(x for x in d["locals"] if x < 900):
            names[str(l)] = pool[i % len(pool)]
        names[str(d["params"][0])] = "v21"
        names[str(d["params"][1])] = "v22"
        names["8"] = "v7"
    return {"id": "r%d" % idx, "backend": "surface", "kind": "program", "mode": "query", "qvars": [1, 2],
            "defs": {rel: d}, "body": body, "names": names, "after": 1, "budget": 400000}


def commit_fail_program(rng, idx):
    """matcha / matchu whose FIRST matching arm has the literal `false` in its body: the operator commits to that arm
    and fails, although a later arm matches too."""
    op = rng.choice(["matcha", "matchu"])
    val = rng.choice([["nil"], ["list", [["num", 1], ["num", 2]]], ["num", 1], ["cmp", "Pair", [["num", 1], ["num", 2]]]])
    pat_of = {"nil": ["nil"], "list": ["cons", ["any", 901], ["any", 902]], "num": ["num", 1], "cmp": ["cmp", "Pair", [["any", 903], ["num", 2]]]}
    first = {"pats": [pat_of[val[0]] if rng.random() < 0.7 else ["any", 904]], "vars": [],
             "body": rng.choice([[["fail"]], [["eq", var(2), ["num", 7]], ["fail"]], [["fail"], ["eq", var(2), ["num", 7]]]])}
    other = {"pats": [rng.choice([["num", 5], ["list", [["num", 9]]]])], "vars": [], "body": [["eq", var(2), ["num", 8]]]}
    last = {"pats": [["any", 905]], "vars": [], "body": [["eq", var(2), ["num", 9]]]}
    arms = [first, last] if rng.random() < 0.5 else rng.choice([[other, first, last], [first, other, last]])
    prefix = [["eq", var(1), val]] if rng.random() < 0.7 else [["conde", [[["eq", var(1), val]], [["eq", var(1), ["num", 5]]]]]]
    return {"id": "cf%d" % idx, "backend": "surface", "kind": "program", "mode": "query", "qvars": [1, 2],
            "body": prefix + [["match", op, var(1), arms]], "names": {}, "after": 1, "budget": 200000}


def twice_program(rng, idx):
    """A goal VALUE that introduces variables (closure with a fresh block, fresh block, pattern-free disjunction) is
    entered two times on one path: ["twice", g, g2] where g2 is g with its bound variables renamed apart (what the
    specification evaluates).  The two query variables are only mentioned inside (closures are `move`)."""
    def make(base):
        y, z = base, base + 1
        rel = lambda v: rng.choice([["eq", var(v), var(y)], ["eq", var(y), var(v)], ["eq", var(v), ["list", [var(y)]]],
                                    ["eq", var(v), ["list", [var(y), var(z)]]]])
        kind_goal = {
            0: ["conde", [[rel(1)], [rel(2)]]],
            1: ["conj", [["conde", [[rel(1)], [rel(2)]]], ["neq", var(y), ["num", 1]]]],
            2: ["conde", [[rel(1), ["eq", var(z), ["num", 1]]], [rel(2), ["eq", var(z), ["num", 2]]], [rel(1), rel(2)]]],
        }
        return kind_goal
    st = rng.getstate()
    k = rng.randint(0, 2)
    # only closures: a closure body is rebuilt at every entry.  (The variables of a plain fresh block are created
    # when the goal VALUE is built, so cloning that value in Rust shares them - that is outside the DSL.)
    wrap = "closure"
    rng2 = rng
    st = rng.getstate()
    g1 = make(20)[k]
    rng.setstate(st)
    g2 = make(30)[k]
    if wrap == "closure":
        a = ["closure", [["fresh", [20, 21], [g1]]]]
        b = ["closure", [["fresh", [30, 31], [g2]]]]
    else:
        a = ["fresh", [20, 21], [g1]]
        b = ["fresh", [30, 31], [g2]]
    body = [["twice", a, b]]
    return {"id": "tw%d" % idx, "backend": "surface", "kind": "program", "mode": "query", "qvars": [1, 2],
            "body": body, "names": {"30": "v20", "31": "v21"}, "after": 1, "budget": 200000}


def shadow_program(rng, idx, shadow):
    """Nested fresh blocks with same-named variables in nested and sibling scopes."""
    names = {}
    state = {"next": 10}

    def block(outer, level):
        goals = []
        n = rng.randint(1, 2)
        ids = []
        for _ in range(n):
            state["next"] += 1
            ids.append(state["next"])
        visible = list(outer)
        used = set()
        for i in ids:
            if shadow and outer and rng.random() < 0.6:
                o = rng.choice(outer)
                nm = names.get(str(o), "v%d" % o)
                if nm in used:
                    continue      # two variables of one fresh block must keep different names
                used.add(nm)
                names[str(i)] = nm
                visible = [x for x in visible if names.get(str(x), "v%d" % x) != nm]
        visible += ids
        for _ in range(rng.randint(1, 3)):
            a = var(rng.choice(visible))
            b = rng.choice([["num", rng.randint(1, 3)], var(rng.choice(visible)), ["list", [var(rng.choice(visible)), ["num", 1]]]])
            goals.append([rng.choice(["eq", "eq", "neq"]), a, b])
        if level < 2 and rng.random() < 0.7:
            goals.insert(rng.randint(0, len(goals)), block(visible, level + 1))
        if level < 2 and rng.random() < 0.4:
            goals.append(block(visible, level + 1))
        return ["fresh", ids, goals]

    body = [block([1, 2], 0)]
    if rng.random() < 0.5:
        body.append(block([1, 2], 0))
    return {"id": "s%d" % idx, "backend": "surface", "kind": "program", "mode": "query", "qvars": [1, 2],
            "body": body, "names": names, "after": 1, "budget": 200000}


def grammar_program(rng, idx):
    """Programs over the whole clause grammar (C14)."""
    nq = rng.randint(1, 3)
    state = {"next": 10, "any": 900, "defs": {}}

    def anyc():
        state["any"] += 1
        return ["any", state["any"]]

    def t(vars_, depth, top):
        r = rng.random()
        if depth <= 0 or r < 0.4:
            r2 = rng.random()
            if r2 < 0.4:
                return var(rng.choice(vars_))
            if r2 < 0.6:
                return ["num", rng.randint(0, 3)]
            if r2 < 0.8:
                return ["sym", rng.choice(["b:true", "b:false", "c:a", "s:a", "s:1"])]
            if r2 < 0.9:
                return anyc()
            return ["nil"]
        if r < 0.65 or (r >= 0.85 and not top):
            return ["list", [t(vars_, depth - 1, False) for _ in range(rng.randint(0, 3))]]
        if r < 0.85:
            return ["ilist", [t(vars_, depth - 1, False) for _ in range(rng.randint(1, 2))] + [rng.choice([var(rng.choice(vars_)), anyc(), ["num", 1]])]]
        # the surface grammar accepts compound constructors only outside list brackets
        ty = rng.choice(["Pair", "Box1"])
        return ["cmp", ty, [t(vars_, depth - 1, rng.random() < 0.4) for _ in range(CMP_ARITY[ty])]]

    def term_(vars_, depth):
        return t(vars_, depth, True)

    def goal_(vars_, level):
        r = rng.random()
        if r < 0.3:
            return ["eq", term_(vars_, 2), term_(vars_, 2)]
        if r < 0.42:
            return ["neq", var(rng.choice(vars_)), term_(vars_, 1)]
        if r < 0.47:
            return rng.choice([["succeed"], ["fail"]])
        if r < 0.57 and level < 2:
            return ["conj", [goal_(vars_, level + 1) for _ in range(rng.randint(1, 3))]]
        if r < 0.72 and level < 2:
            # every clause operator of the grammar; now and then a clause is the bare literal `true` / `false`
            op = rng.choice(["conde", "conde", "conde", "cond", "conda", "condu", "onceo", "dfs"])

            def clause_():
                if rng.random() < 0.2:
                    return [rng.choice([["fail"], ["fail"], ["succeed"]])]
                if op != "dfs" and rng.random() < (0.4 if op in ("conda", "condu") else 0.12):
                    # `[true, g ..]`: a literal true as the first goal (the guard, for conda / condu) of a bracketed arm
                    return [["succeed"]] + [goal_(vars_, level + 1) for _ in range(rng.randint(1, 2))]
                if op == "dfs":
                    return [rng.choice([["eq", var(rng.choice(vars_)), term_(vars_, 1)], ["neq", var(rng.choice(vars_)), ["num", 1]],
                                        ["cond", [[["eq", var(rng.choice(vars_)), ["num", j]]] for j in range(rng.randint(1, 3))]]])
                            for _ in range(rng.randint(1, 2))]
                return [goal_(vars_, level + 1) for _ in range(rng.randint(1, 2))]

            return [op, [clause_() for _ in range(rng.randint(1 if op in ("onceo", "dfs") else 2, 3))]]
        if r < 0.82 and level < 2:
            state["next"] += 1
            i = state["next"]
            return ["fresh", [i], [goal_(vars_ + [i], level + 1) for _ in range(rng.randint(1, 2))]]
        if r < 0.88 and level < 2:
            # `closure { }` is a `move` closure: it takes ownership of the variables it mentions, so
            # they cannot be used afterwards in the same scope.  It gets a variable of its own.
            state["next"] += 1
            c = state["next"]
            inner = [rng.choice([["eq", var(c), ["num", rng.randint(0, 3)]], ["neq", var(c), ["num", 1]],
                                 ["call", "member", [var(c), ["list", [["num", 1], ["num", 2]]]]],
                                 ["conde", [[["eq", var(c), ["num", 1]]], [["eq", var(c), ["list", [["num", 2]]]]]]]])
                     for _ in range(rng.randint(1, 2))]
            # a closure body of several goals is written as ONE bracketed clause (`closure { g1, g2 }` does not
            # parse, DESIGN 8): the case says so, and every backend and the specification build the same goal
            if len(inner) > 1:
                inner = [["conj", inner]]
            return ["fresh", [c], [["eq", var(c), term_(vars_, 1)], ["closure", inner]]]
        if r < 0.96:
            lg = lib_goal(rng, TermGen(rng, vars_, compounds=False, syms=False, nums=[1, 2, 3]))
            return lg
        return ["eq", var(rng.choice(vars_)), ["num", 1]]

    qs = list(range(1, nq + 1))
    body = [goal_(qs, 0) for _ in range(rng.randint(1, 4))]
    case = {"id": "g%d" % idx, "kind": "program", "mode": "query", "qvars": qs, "body": body, "after": 1, "budget": 400000}
    if rng.random() < 0.5:
        case["bracket_literals"] = True      # literal true / false arms are written `[true]` / `[false]`
    if rng.random() < 0.15:
        k = rng.randint(1, 2)
        case["body"] = body + [["loop", [[["conde", [[["eq", var(1), ["num", j]]] for j in range(k)]]]]]]
        case["take"] = rng.randint(2, 6)
        case["fuel"] = 10
    return case
