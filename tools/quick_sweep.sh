#!/bin/sh
# runs every quick check once on the current tree, one after the other; summary in work/quick_sweep.log
cd /verif
: > work/quick_sweep.log
for p in C01 C02 C03 C04 C05 C06 C07 C08 C09 C10 C11 C12 C13 C14 C15 C16 C17 C18 C19 C20 C21 C22 C23 C24; do
  ./check $p --tier quick > work/sweep_$p.out 2>&1; rc=$?
  echo "$p exit=$rc $(grep -c '^VIOLATION' work/sweep_$p.out) violations $(grep -c '^KNOWN-FINDING' work/sweep_$p.out) known | $(tail -1 work/sweep_$p.out)" >> work/quick_sweep.log
done
echo DONE >> work/quick_sweep.log
