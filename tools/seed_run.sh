#!/bin/sh
# seed_run.sh <name> <property>...: apply /verif/seeded/<name>/patch.diff to /repo, run the
# quick checks of the given properties, undo the change. Appends outcomes to seeded/<name>/runs.txt.
name=$1; shift
cd /verif
git -C /repo diff --quiet || { echo "/repo not clean"; exit 2; }
git -C /repo apply /verif/seeded/$name/patch.diff || { echo "patch does not apply"; exit 2; }
for p in "$@"; do
  # the evidence files must describe runs on the UNCHANGED tree: keep them aside
  [ -f evidence/$p.json ] && cp evidence/$p.json /tmp/evidence_keep_$p.json
  out=$(./check $p --tier quick 2>&1); rc=$?
  nv=$(echo "$out" | grep -c '^VIOLATION')
  first=$(echo "$out" | grep '^VIOLATION' | head -1)
  echo "$(date -u +%FT%TZ) $name check=$p exit=$rc violations_printed=$nv $(echo "$out" | tail -1)" | tee -a /verif/seeded/$name/runs.txt
  [ -n "$first" ] && echo "   $first" | tee -a /verif/seeded/$name/runs.txt
  # keep one replay file of the detection as evidence
  f=$(echo "$first" | sed -n 's/.*replay=\([^ ]*\).*/\1/p'); [ -n "$f" ] && cp "$f" /verif/seeded/$name/detected_by_$p.json
  rm -f evidence/replay/$p-*.json
  [ -f /tmp/evidence_keep_$p.json ] && mv /tmp/evidence_keep_$p.json evidence/$p.json
done
git -C /repo checkout -- .
git -C /repo status --short | head -3
