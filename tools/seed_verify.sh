#!/bin/sh
# seed_verify.sh <name> <worktree>: confirm a seeded change in its scratch worktree:
#   existing suite passes with the change, the demonstration fails with it and passes without.
# Then store it as /verif/seeded/<name>/{patch.diff,mutant_demo.rs}. Prints a summary line.
set -u
name=$1; wt=$2
cd "$wt" || exit 2
export CARGO_TARGET_DIR=$wt/target CARGO_NET_OFFLINE=true
git diff -- src macros > /tmp/$name.patch
[ -s /tmp/$name.patch ] || { echo "$name: empty patch"; exit 2; }
suite=$(cargo test --offline --lib 2>&1 | grep -E "^test result" | head -1)
doc=$(cargo test --offline --doc 2>&1 | grep -E "^test result" | head -1)
with=$(cargo test --offline --test mutant_demo 2>&1 | grep -E "^test result" | head -1)
git diff -- src macros > /tmp/$name.keep.patch; git apply -R /tmp/$name.keep.patch
without=$(cargo test --offline --test mutant_demo 2>&1 | grep -E "^test result" | head -1)
git apply /tmp/$name.keep.patch
mkdir -p /verif/seeded/$name
cp /tmp/$name.patch /verif/seeded/$name/patch.diff
cp tests/mutant_demo.rs /verif/seeded/$name/mutant_demo.rs
[ -f RESULT.md ] && cp RESULT.md /verif/seeded/$name/agent_report.md
echo "$name | suite(with): $suite | doc(with): $doc | demo(with): $with | demo(without): $without"
