"""Shared plumbing of the /verif/check driver: harness build, TLC invocation (flow A and the
judge of flow C), ndjson handling, known-finding classification, evidence files."""
import json
import os
import re
import shutil
import subprocess
import sys
import time
from concurrent.futures import ThreadPoolExecutor

ROOT = os.path.dirname(os.path.dirname(os.path.abspath(__file__)))
SPEC = os.path.join(ROOT, "spec")
WORK = os.path.join(ROOT, "work")
HARNESS = os.path.join(ROOT, "harness")
PVH = os.path.join(HARNESS, "target", "release", "pvh")
EVID = os.path.join(ROOT, "evidence")
REPLAY = os.path.join(EVID, "replay")


class ToolError(Exception):
    pass


def sh(cmd, **kw):
    return subprocess.run(cmd, stdout=subprocess.PIPE, stderr=subprocess.STDOUT, text=True, **kw)


def build_harness():
    """Rebuilds the harness against /repo's current working tree (path dependency)."""
    env = dict(os.environ, CARGO_NET_OFFLINE="true")
    r = sh(["cargo", "build", "--release", "--offline"], cwd=HARNESS, env=env)
    if r.returncode != 0:
        sys.stderr.write(r.stdout[-6000:])
        raise ToolError("harness build failed (does /repo still compile?)")


def tlc_env(extra=None):
    env = dict(os.environ)
    env["JAVA_TOOL_OPTIONS"] = "-Xss1g"
    if extra:
        env.update(extra)
    return env


def write_cfg(path, spec, constants, invariants, subst=None, properties=None, constraint=None):
    lines = ["SPECIFICATION %s" % spec]
    if constants or subst:
        lines.append("CONSTANTS")
        for k, v in (constants or {}).items():
            lines.append("  %s = %s" % (k, v))
        for k, v in (subst or {}).items():
            lines.append("  %s <- %s" % (k, v))
    if invariants:
        lines.append("INVARIANTS " + " ".join(invariants))
    if properties:
        lines.append("PROPERTIES " + " ".join(properties))
    if constraint:
        lines.append("CONSTRAINT " + constraint)
    lines.append("CHECK_DEADLOCK FALSE")
    with open(path, "w") as f:
        f.write("\n".join(lines) + "\n")


def run_mc(name, module, constants, invariants, subst=None, workers=8, timeout=3000,
           properties=None, constraint=None, allow_violation=False, spec="Spec", max_cases=400000):
    """Flow A: model-checks `module` and returns
    {states, distinct, cases:[...], seconds, violated: invariant-or-None, out}."""
    d = os.path.join(WORK, "mc_" + name)
    shutil.rmtree(d, ignore_errors=True)
    os.makedirs(d, exist_ok=True)
    cfg = os.path.join(d, module + ".cfg")
    write_cfg(cfg, spec, constants, invariants, subst, properties, constraint)
    # TLC wants the cfg next to the module or given by path; modules are read from SPEC
    t0 = time.time()
    # TLC's output goes to a file: a thorough configuration prints millions of CASE lines
    outp = os.path.join(d, "out.txt")
    with open(outp, "w") as f:
        r = subprocess.run(["timeout", str(timeout), "tlc", "-workers", str(workers), "-config", cfg,
                            "-metadir", os.path.join(d, "states"), "-cleanup", "-noGenerateSpecTE",
                            os.path.join(SPEC, module + ".tla")], cwd=SPEC, env=tlc_env(),
                           stdout=f, stderr=subprocess.STDOUT, text=True)
    dt = time.time() - t0
    ncase, rest = 0, []
    with open(outp) as f:
        for line in f:
            if line.startswith('"CASE '):
                ncase += 1
            else:
                rest.append(line)
                if len(rest) > 4000:
                    del rest[:2000]
    out = "".join(rest)
    # at most max_cases behaviours are handed on (every stride-th CASE line, in TLC's output order)
    stride = max(1, -(-ncase // max_cases))
    cases, i = [], 0
    with open(outp) as f:
        for line in f:
            if line.startswith('"CASE '):
                if i % stride == 0:
                    cases.append(json.loads(json.loads(line)[5:]))
                i += 1
    m = re.search(r"(\d[\d,]*) states generated, (\d[\d,]*) distinct states found", out)
    violated = None
    mv = re.search(r"Error: Invariant (\w+) is violated", out)
    if mv:
        violated = mv.group(1)
    mt = re.search(r"Error: Temporal properties were violated", out)
    if mt:
        violated = "temporal"
    if r.returncode == 124:
        raise ToolError("TLC timed out on %s" % module)
    if not m or ("Error:" in out and not violated):
        sys.stderr.write(out[-4000:])
        raise ToolError("TLC failed on %s" % module)
    if violated and not allow_violation:
        sys.stderr.write(out[-6000:])
        raise ToolError("the DESIGN violates %s in %s: the specification itself is wrong" % (violated, module))
    return {"generated": int(m.group(1).replace(",", "")), "distinct": int(m.group(2).replace(",", "")),
            "cases": cases, "case_lines": ncase, "case_stride": stride, "seconds": dt, "violated": violated,
            "module": module, "constants": constants}


def write_ndjson(path, recs):
    with open(path, "w") as f:
        for r in recs:
            f.write(json.dumps(r, separators=(",", ":")) + "\n")


def read_ndjson(path):
    out = []
    with open(path) as f:
        for line in f:
            line = line.strip()
            if line:
                out.append(json.loads(line))
    return out


def run_harness(name, cases, procs=8):
    """Flow B: executes the cases on the real code; returns the observation records."""
    d = os.path.join(WORK, "run_" + name)
    shutil.rmtree(d, ignore_errors=True)
    os.makedirs(d, exist_ok=True)
    n = max(1, min(procs, (len(cases) + 199) // 200))
    # round robin: balanced, and the cases of one group (consecutive cases) are executed by
    # DIFFERENT processes (different hash seeds); the observations are put back into case
    # order afterwards, so group members are adjacent again for the judge.
    chunks = [cases[i::n] for i in range(n)]
    chunks = [c for c in chunks if c]
    n = len(chunks)

    def run_file(cp, op, limit=900):
        r = sh(["timeout", "-s", "KILL", str(limit), PVH, "run", cp, op])
        return r.returncode, r.stdout

    def one(i):
        cp = os.path.join(d, "cases%d.ndjson" % i)
        op = os.path.join(d, "obs%d.ndjson" % i)
        write_ndjson(cp, chunks[i])
        rc, out = run_file(cp, op)
        if rc == 0:
            return read_ndjson(op)
        # The harness process died (stack overflow or abort in the code under test cannot be
        # caught): run the cases of this chunk one by one and record the ones that kill it.
        recs = []
        for j, c in enumerate(chunks[i]):
            cp1 = os.path.join(d, "cases%d_%d.ndjson" % (i, j))
            op1 = os.path.join(d, "obs%d_%d.ndjson" % (i, j))
            write_ndjson(cp1, [c])
            rc1, out1 = run_file(cp1, op1, limit=20)
            if rc1 == 0:
                recs.extend(read_ndjson(op1))
            elif rc1 in (124, 137, -9):
                # no answer and no end within 20 s of wall-clock time for ONE case (a healthy case takes
                # milliseconds): the search did not come back within any reasonable step budget
                recs.append({"case": c["id"], "k": "reset", "c": c})
                recs.append({"case": c["id"], "k": "end", "kind": "budget", "n": 0, "after": [], "tick": 0,
                             "msg": "killed: the case did not return within 20 s", "loc": "process"})
            else:
                msg = (out1.strip().splitlines() or ["process died"])[-1][:200]
                recs.append({"case": c["id"], "k": "reset", "c": c})
                recs.append({"case": c["id"], "k": "end", "kind": "panic", "n": 0, "after": [], "tick": 0,
                             "msg": "harness process died: " + msg, "loc": "process"})
            for f in (cp1, op1):
                if os.path.exists(f):
                    os.remove(f)
        return recs

    with ThreadPoolExecutor(max_workers=n) as ex:
        parts = list(ex.map(one, range(n)))
    by_case = {}
    for p in parts:
        for g in split_by_case(p):
            by_case[g[0]["case"]] = g
    obs = []
    for c in cases:
        obs.extend(by_case[c["id"]])
    return obs


def split_by_case(obs):
    groups, cur = [], None
    for r in obs:
        if r["k"] == "reset":
            cur = []
            groups.append(cur)
        cur.append(r)
    return groups


def run_judge(name, obs, module="Judge", procs=8, timeout=1500, per_chunk=4000):
    """Flow C: TLC validates the observation records against the specification.
    Returns {records, accepted, rej:[{case,at,reason}], seconds}."""
    d = os.path.join(WORK, "judge_" + name)
    shutil.rmtree(d, ignore_errors=True)
    os.makedirs(d, exist_ok=True)
    groups = split_by_case(obs)
    # chunks of whole cases
    chunks, cur, n = [], [], 0
    target = max(200, min(per_chunk, (len(obs) + procs - 1) // procs))
    for gi, g in enumerate(groups):
        cur.extend(g)
        n += len(g)
        # never split between two consecutive cases of the same group
        grp = g[0]["c"].get("group")
        nxt = groups[gi + 1][0]["c"].get("group") if gi + 1 < len(groups) else None
        if n >= target and not (grp is not None and grp == nxt):
            chunks.append(cur)
            cur, n = [], 0
    if cur:
        chunks.append(cur)
    cfg = os.path.join(d, module + ".cfg")
    write_cfg(cfg, "Spec", None, ["Done"])

    def one(i):
        op = os.path.join(d, "obs%d.ndjson" % i)
        write_ndjson(op, chunks[i])
        r = sh(["timeout", str(timeout), "tlc", "-workers", "1", "-config", cfg,
                "-metadir", os.path.join(d, "states%d" % i), "-cleanup", "-noGenerateSpecTE",
                os.path.join(SPEC, module + ".tla")], cwd=SPEC, env=tlc_env({"OBS": op}))
        res = None
        for line in r.stdout.splitlines():
            if line.startswith('"RESULT '):
                res = json.loads(json.loads(line)[7:])
        if res is None or res["n"] != len(chunks[i]):
            with open(os.path.join(d, "out%d.txt" % i), "w") as f:
                f.write(r.stdout)
            raise ToolError("judge did not consume %s (see %s)" % (op, os.path.join(d, "out%d.txt" % i)))
        return res

    t0 = time.time()
    with ThreadPoolExecutor(max_workers=procs) as ex:
        results = list(ex.map(one, range(len(chunks))))
    rej, acc = [], 0
    for r in results:
        rej.extend(r["rej"])
        acc += r["accepted"]
    return {"records": len(obs), "cases": len(groups), "accepted": acc, "rej": rej,
            "seconds": time.time() - t0}


# --------------------------------------------------------------------------- known findings

def load_findings():
    p = os.path.join(ROOT, "known_findings.json")
    if not os.path.exists(p):
        return []
    with open(p) as f:
        return json.load(f)["findings"]


def walk_json(x):
    yield x
    if isinstance(x, list):
        for y in x:
            yield from walk_json(y)
    elif isinstance(x, dict):
        for y in x.values():
            yield from walk_json(y)


def goal_tags(case):
    tags = set()
    for x in walk_json(case):
        if isinstance(x, list) and x and isinstance(x[0], str):
            tags.add(x[0])
            if x[0] == "call" and len(x) > 1 and isinstance(x[1], str):
                tags.add("call:" + x[1])
    return tags


def finding_matches(f, prop, case, reason, end):
    """A finding matches a rejected case when the property and reason agree and every
    predicate of its `match` holds for the case."""
    if f.get("status", "open") != "open":
        return False
    if f["property"] != prop:
        return False
    m = f.get("match", {})
    if "reasons" in m and reason not in m["reasons"]:
        return False
    tags = goal_tags(case)
    for t in m.get("all_tags", []):
        if t not in tags:
            return False
    if m.get("any_tags") and not (set(m["any_tags"]) & tags):
        return False
    if "panic_loc" in m:
        if not end or m["panic_loc"] not in end.get("loc", ""):
            return False
    if "panic_msg" in m:
        if not end or m["panic_msg"] not in end.get("msg", ""):
            return False
    return True


def write_evidence(prop, tier, seed, coverage, wall, violations, assumptions, extra=None):
    os.makedirs(EVID, exist_ok=True)
    ev = {"property_id": prop, "tier": tier, "seed": seed, "level": "model_checking",
          "coverage": coverage, "assumptions": assumptions, "wall_s": round(wall, 2),
          "violations": violations}
    if extra:
        ev.update(extra)
    with open(os.path.join(EVID, prop + ".json"), "w") as f:
        json.dump(ev, f, indent=1)
