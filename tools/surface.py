"""Surface backend: prints case ASTs as proto-vulcan surface syntax (Rust source for the `pvs`
crate), builds and runs it.  No judgement here."""
import json
import os
import shutil
import subprocess

import vlib

SURF = os.path.join(vlib.ROOT, "surface")


def vname(i, names):
    return names.get(str(i), "v%d" % i)


def term(t, names):
    tag = t[0]
    if tag == "num":
        assert t[1] >= 0, "negative literals cannot be written in surface terms"
        return str(t[1])
    if tag == "sym":
        s = t[1]
        if s.startswith("b:"):
            return s[2:]
        if s.startswith("c:"):
            return "'%s'" % s[2:]
        return json.dumps(s[2:] if s.startswith("s:") else s)
    if tag == "var":
        return vname(t[1], names)
    if tag == "any":
        return "_"
    if tag == "nil":
        return "[]"
    if tag == "list":
        return "[" + ", ".join(term(x, names) for x in t[1]) + "]"
    if tag == "ilist":
        return "[" + ", ".join(term(x, names) for x in t[1][:-1]) + " | " + term(t[1][-1], names) + "]"
    if tag == "cons":
        return "[" + term(t[1], names) + " | " + term(t[2], names) + "]"
    if tag == "cmp":
        ty = t[1]
        if ty == "Tuple":
            return "(" + ", ".join(term(x, names) for x in t[2]) + ")"
        return ty + "(" + ", ".join(term(x, names) for x in t[2]) + ")"
    raise ValueError("surface: term " + str(t))


def goals(gs, names, ctx):
    return ", ".join(goal(g, names, ctx) for g in gs)


def clause(gs, names, ctx):
    """A clause inside an operator body: a single goal is written bare, several as [g1, g2]."""
    if len(gs) == 1 and gs[0][0] != "conj":
        if ctx.get("bracket_literals") and gs[0][0] in ("succeed", "fail"):
            return "[" + goal(gs[0], names, ctx) + "]"      # `[true]` instead of the bare `true` (same meaning)
        return goal(gs[0], names, ctx)
    return "[" + goals(gs, names, ctx) + "]"


def clauses(cls, names, ctx):
    return ", ".join(clause(c, names, ctx) for c in cls)


def dom(d):
    if d[0] == "itv":
        return "&(%d..=%d)" % (d[1], d[2])
    return "&[" + ", ".join(str(x) for x in d[1]) + "]"


def goal(g, names, ctx):
    tag = g[0]
    if tag == "eq":
        return "%s == %s" % (term(g[1], names), term(g[2], names))
    if tag == "neq":
        return "%s != %s" % (term(g[1], names), term(g[2], names))
    if tag == "succeed":
        return "true"
    if tag == "fail":
        return "false"
    if tag == "conj":
        return "[" + goals(g[1], names, ctx) + "]"
    if tag in ("conde", "cond", "conda", "condu", "onceo", "dfs"):
        return "%s { %s }" % (tag, clauses(g[1], names, ctx))
    if tag == "loop":
        return "loop { %s }" % clauses(g[1], names, ctx)
    if tag == "fresh":
        return "|%s| { %s }" % (", ".join(vname(i, names) for i in g[1]), goals(g[2], names, ctx))
    if tag == "closure":
        # `closure { g1, g2 }` does not parse (the macro reads the separator as a clause; DESIGN 8):
        # a closure body is written as ONE clause
        body = g[1]
        return "closure { %s }" % (goal(body[0], names, ctx) if len(body) == 1 else "[" + goals(body, names, ctx) + "]")
    if tag == "twice":
        # the goal value is built ONCE by a generated Rust function and used two times (helper `twice`)
        def ids(x, bound, acc):
            if isinstance(x, list):
                if len(x) == 2 and x[0] == "var" and isinstance(x[1], int):
                    if x[1] not in bound:
                        acc.add(x[1])
                    return
                if x and x[0] == "fresh":
                    ids(x[2], bound | set(x[1]), acc)
                    return
                for y in x:
                    ids(y, bound, acc)
        free = set()
        ids(g[1], set(), free)
        free = sorted(free)
        k = len(ctx["extra"])
        fname = "%stw%d" % (ctx["mangle"], k)
        params = ", ".join("%s: LTerm<U, E>" % vname(i, names) for i in free)
        args = ", ".join(vname(i, names) for i in free)
        ctx["extra"].append(
            "fn %s_goal<U: User, E: Engine<U>>(%s) -> Goal<U, E> {\n    proto_vulcan!(%s)\n}\n"
            "fn %s<U: User, E: Engine<U>>(%s) -> Goal<U, E> {\n    twice(%s_goal(%s))\n}\n"
            % (fname, params, goal(g[1], names, ctx), fname, params, fname, args))
        return "%s(%s)" % (fname, args)
    if tag == "project":
        return "project |%s| { %s }" % (", ".join(vname(i, names) for i in g[1]), goals(g[2], names, ctx))
    if tag == "call":
        name = g[1]
        if name in ctx["defs"]:
            name = ctx["mangle"] + name
        return "%s(%s)" % (name, ", ".join(term(a, names) for a in g[2]))
    if tag in ("always", "never"):
        return "%s()" % tag
    if tag == "match":
        arms = []
        for arm in g[3]:
            pats = " | ".join(term(p, names) for p in arm["pats"])
            body = arm["body"]
            if len(body) == 0:
                arms.append("%s => " % pats)
            elif len(body) == 1:
                arms.append("%s => %s" % (pats, goal(body[0], names, ctx)))
            else:
                arms.append("%s => { %s }" % (pats, goals(body, names, ctx)))
        return "%s %s { %s, }" % (g[1], term(g[2], names), ", ".join(arms))
    if tag == "dom":
        f = "infdrange" if g[2][0] == "itv" else "infd"
        return "%s(%s, %s)" % (f, term(g[1], names), dom(g[2]))
    if tag in ("ltefd", "ltfd", "plusfd", "minusfd", "timesfd", "plusz", "timesz"):
        return "%s(%s)" % (tag, ", ".join(term(a, names) for a in g[1:]))
    if tag == "neqfd":
        return "diseqfd(%s, %s)" % (term(g[1], names), term(g[2], names))
    if tag == "distinctfd":
        return "distinctfd(%s)" % term(g[1], names)
    if tag == "for":
        # collection = a ground Rust value declared before the query (ctx["colls"])
        cname = "coll%d" % len(ctx["colls"])
        ctx["colls"].append((cname, [term(x, names) for x in g[2]]))
        return "for %s in &%s { %s }" % (vname(g[1], names), cname, clauses(g[3], names, ctx))
    raise ValueError("surface: goal " + str(g))


PRELUDE = '''// generated by /verif/tools/surface.py - do not edit
#![allow(unused_imports, unused_variables, non_snake_case, dead_code, unused_parens)]
use crate::{CaseFn, Outcome};
use proto_vulcan::goal::{AnyGoal, InferredGoal};
use proto_vulcan::operator::{cond, conda, condu, dfs, matcha, matche, matchu, onceo};
use proto_vulcan::prelude::*;
use proto_vulcan::relation::*;

/// The goal value `g` two times in a row (a clone of a goal shares the goal object).
fn twice<U: User, E: Engine<U>>(g: Goal<U, E>) -> Goal<U, E> {
    let g2 = g.clone();
    proto_vulcan!([g, g2])
}

#[compound]
struct Pair(LTerm, LTerm);
#[compound]
struct Box1(LTerm);
#[compound]
struct Tree(LTerm, LTerm, LTerm);
'''


def emit_case(n, case):
    names = case.get("names", {})
    ctx = {"defs": case.get("defs", {}) or {}, "mangle": "r%d_" % n, "colls": [], "extra": [],
           "bracket_literals": bool(case.get("bracket_literals"))}
    out = []
    for dname, d in ctx["defs"].items():
        params = ", ".join("%s: LTerm<U, E>" % vname(p, names) for p in d["params"])
        body = goals(d["body"], names, ctx)
        out.append("fn %s%s<U: User, E: Engine<U>>(%s) -> Goal<U, E> {\n"
                   "    proto_vulcan_closure!([%s])\n}\n" % (ctx["mangle"], dname, params, body))
    qv = [vname(i, names) for i in case["qvars"]]
    if case.get("lterm"):
        # the term is built by lterm!( ) and handed to == as a Rust expression
        g = case["body"][0]
        body = "%s == { { let t: LTerm<_, _> = lterm!(%s); t } }" % (term(g[1], names), term(g[2], names))
    else:
        body = goals(case["body"], names, ctx)
    colls = "".join("    let %s: Vec<LTerm> = vec![%s];\n" % (c, ", ".join("lterm!(%s)" % x for x in xs))
                    for c, xs in ctx["colls"])
    out.extend(ctx["extra"])
    out.append("fn case_%d(take: usize, after: usize) -> Outcome {\n%s"
               "    let query = proto_vulcan_query!(|%s| { %s });\n"
               "    run_query!(query, [%s], take, after)\n}\n" % (n, colls, ", ".join(qv), body, ", ".join(qv)))
    return "\n".join(out)


def emit(cases):
    parts = [PRELUDE]
    for n, c in enumerate(cases):
        parts.append(emit_case(n, c))
    entries = []
    for n, c in enumerate(cases):
        entries.append("        CaseFn { case_json: %s, run: case_%d }," % (json.dumps(json.dumps(c)), n))
    parts.append("pub fn cases() -> Vec<CaseFn> {\n    vec![\n%s\n    ]\n}\n" % "\n".join(entries))
    return "\n".join(parts)


def run_surface(name, cases):
    """Writes generated.rs, builds the surface crate against /repo's working tree, runs it."""
    src = os.path.join(SURF, "src", "generated.rs")
    with open(src, "w") as f:
        f.write(emit(cases))
    env = dict(os.environ, CARGO_NET_OFFLINE="true")
    r = vlib.sh(["cargo", "build", "--offline"], cwd=SURF, env=env)
    if r.returncode != 0:
        d = os.path.join(vlib.WORK, "surface_" + name)
        os.makedirs(d, exist_ok=True)
        shutil.copy(src, os.path.join(d, "generated.rs"))
        with open(os.path.join(d, "build.txt"), "w") as f:
            f.write(r.stdout)
        raise vlib.ToolError("surface crate does not compile (see %s/build.txt): %s"
                             % (d, "\n".join(l for l in r.stdout.splitlines() if l.startswith("error"))[:600]))
    d = os.path.join(vlib.WORK, "surface_" + name)
    os.makedirs(d, exist_ok=True)
    op = os.path.join(d, "obs.ndjson")
    r = vlib.sh(["timeout", "-s", "KILL", "900", os.path.join(SURF, "target", "debug", "pvs"), op])
    if r.returncode != 0:
        raise vlib.ToolError("surface runner died: " + r.stdout[-500:])
    return vlib.read_ndjson(op)
