"""Per-property wording of MANIFEST.json."""
TB = ("Trusted: TLC and the CommunityModules Json/IOUtils operators, the reference semantics in the specification "
      "(Sat*, Eval), the Rust projectors of harness/src/project.rs. Bounded: term depth, variables, posts, universe "
      "(constants are in the evidence file).")
TEXT = {
 "C01": {"ref": "DESIGN 5 C01", "technique": "TLA+ spec of unification model-checked against ground-instance denotation; TLC-enumerated and random unifications replayed on State::unify and judged by TLC trace validation",
         "level": "The design (Store.tla UnifyRec/Unify) is model-checked exhaustively: every ordered pair of terms of two bounded universes (lists; compounds), Den = 'the store has exactly the ground unifiers as instances' over a universe with two fresh atoms (most-generality), acyclicity, identical resolution. Every enumerated pair plus seeded random deeper ones is executed on the real State::unify / `==` and each recorded step is validated by TLC against the specification (success flag, acyclic, store equivalent to the specification's MGU, extension exact, failure leaves the store unchanged).",
         "note": TB},
 "C02": {"ref": "DESIGN 5 C02", "technique": "TLA+ spec of the disequality store model-checked over all post sequences (order-freedom = denotation equality); step-by-step trace validation of State and query answers",
         "level": "Every sequence of <= K posts from 14 eq/neq goals is model-checked: the store denotes exactly the ground solutions of the posted goals (independent of order), normal form, hook balance. The same sequences are executed step by step on State and as queries, random programs with all/sampled permutations and nested conde/fresh are added, and TLC validates every recorded store (symbolic equivalence with the specification's store) and every answer multiset (up to renaming and logical equivalence of constraint sets).",
         "note": TB},
 "C03": {"ref": "DESIGN 5 C03", "technique": "trace validation of recorded answers against the TLA+ reification spec (closedness, naming bijection, constraint closure, relevance)",
         "level": "Each recorded answer (raw variable ids, is_any flags, attached store, constraints()/is_constrained() per query variable) is validated by TLC: only reified variables occur, reported disequalities mention only reified variables of that answer, constraints() returns every reported constraint on a variable occurring in the result at any depth (lists and compounds). Answers are also compared with the specification's Reify up to a renaming bijection.",
         "note": TB + " 'A constraint on v' is read as: v is an operand (key or variable right-hand side) of the disequality."},
 "C22": {"ref": "DESIGN 5 C22", "technique": "instrumented User type; TLC validates hook counters and extensions at every recorded store",
         "level": "The specification's store carries the hook counters (UserBalance, ExtensionExact are invariants of the model-checked design). The real code runs with an instrumented User type; at every store operation, probe and answer TLC checks with - take = |cstore|, that process_extension saw exactly the new bindings of each successful unification and nothing on failure.",
         "note": TB},
}

TS = ("Trusted: TLC, CommunityModules Json/IOUtils, the reference semantics Ref.tla (Eval) and the Rust projectors. "
      "Bounded: goal-tree depth and alphabets of spec/MC_Search.tla / MC_Live.tla, unfolding fuel, step budgets.")
TEXT.update({
 "C05": {"ref": "DESIGN 5 C05", "technique": "TLA+ engine model (streams, step, solver loop) model-checked against a depth-first reference sequence; TLC-enumerated DFS goal trees and random programs replayed and compared position by position by TLC",
         "level": "The engine model (Search.tla: constructors, mplus_dfs/bind_dfs, step, Solver::next) is model-checked on every DFS goal tree of the scope: at every step the emitted sequence is a prefix of the reference sequence (Ref.tla Eval), complete at exhaustion. Whole queries (scope QDfs) are model-checked too: the order survives state::reified and labelling (blockwise), and every engine step of the enumerated and random query programs is validated against Search.tla (stream skeletons, tick counts). The same trees and random cond/fresh/member/append programs inside dfs{} run on the real engine; TLC validates the recorded answer sequence position by position. The model's tick counts equal the implementation's on all enumerated trees (fidelity diagnostic).",
         "note": TS},
 "C06": {"ref": "DESIGN 5 C06", "technique": "TLA+ engine model model-checked for no-loss/no-invention against the reference bag; replay of enumerated BFS trees and random programs three ways, judged by TLC",
         "level": "Every BFS goal tree of the scope is model-checked: nothing invented at any step, nothing lost at exhaustion. Invariant StepPreservesBag (refinement mapping: emitted + still owed = reference, in every state) holds on every BFS tree and on the whole-query scope QBfs. The trees, random programs run as written / inside dfs{} / through raw Conj nesting (implementation against implementation and against the reference), and bounded prefixes of infinite producers are executed on the real engine and validated by TLC.",
         "note": TS},
 "C07": {"ref": "DESIGN 5 C07", "technique": "TLC liveness checking (weak fairness) of the engine model on finite-state disjunctions, bounded productivity elsewhere; model tick counts become step budgets for the real engine",
         "level": "Fair (every branch eventually contributes need[b] answers) is checked by TLC's liveness checker on all disjunctions of the finite-state scope (never/always/finite branches, nested, under conjunction); Productive (needs met within K ticks) on loop-producers. The real conde/loop is run with a step budget of 20x the model's ticks + 1000 and must deliver every branch's needed answers before the budget is exhausted.",
         "note": TS},
 "C08": {"ref": "DESIGN 5 C08", "technique": "TLA+ model of conda/condu/onceo (peek/trunc) model-checked against soft-cut reference semantics; replay judged by TLC",
         "level": "All clause lists of the commit scope (heads with 0/1/several answers, lazily produced, rests with 0-2 answers, nested) are model-checked against the committed-choice reference; they and random library-relation programs, including infinite heads for condu/onceo, run on the real operators and TLC compares answer multisets (multiplicities included).",
         "note": TS + " The kept answer of condu/onceo is the first one in ENGINE order, taken from the engine model (which reproduces the implementation's emission order and tick counts exactly on the enumerated scopes)."},
 "C09": {"ref": "DESIGN 5 C09", "technique": "model-derived step budgets for take-n, extra next() calls after None, repeated runs across processes (hash seeds) compared by TLC up to renaming",
         "level": "take n on infinite producers ends within the model-derived budget; the iterator stays None (4 more calls); the same query run R times in different processes yields equivalent answer sequences (TLC compares up to variable renaming and constraint-set order).",
         "note": TS + " Hash-order sites that cannot be forced by the schedule hook are covered by repetition."},
 "C10": {"ref": "DESIGN 5 C10", "technique": "compositional reference semantics + implementation-against-implementation multiset union, judged by TLC",
         "level": "Value semantics of the specification make isolation hold by construction in the design; the real code is run on conde{A,B}, A, B, conde{B,A} under shared prefixes (bindings, disequalities, user trail, library relations, project) and TLC checks answers(conde{A,B}) = answers(A) + answers(B) as multisets and each run against the reference.",
         "note": TS},
 "C11": {"ref": "DESIGN 5 C11", "technique": "reference semantics of project (body under the reaching state's walk* value) vs recorded answers; panics are observations",
         "level": "Programs in which 1-4 states reach a project goal whose body uses the projected value non-relationally are executed; TLC compares the answers (and the values the body saw, recorded in the user trail) with the reference, and a panic is a rejection.",
         "note": TS + " Known finding (open): the second visit of one project goal panics; see known_findings.json."},
 "C12": {"ref": "DESIGN 5 C12", "technique": "reference semantics of everyg + implementation-against-implementation comparison with the explicit conjunction, judged by TLC",
         "level": "for x in coll { body } is run next to its explicit conjunction for collections of 0-3 terms sharing variables with the query; TLC checks both against the reference and against each other (multisets).",
         "note": TS + " The surface `for` syntax is exercised by the surface backend (C14)."},
})

TN = ("Trusted: TLC, CommunityModules Json/IOUtils, the brute-force meaning of goals and stores in Store.tla (SatGoal, SatStore), "
      "the Rust projectors. Bounded: integer windows, numbers of variables/constraints (constants in the evidence file).")
TEXT.update({
 "C16": {"ref": "DESIGN 5 C16", "technique": "TLA+ propagator specifications model-checked for soundness and exact labelling against brute-force solutions; TLC-enumerated posting orders and random programs (forced constraint schedules) replayed and judged by TLC",
         "level": "The FD part of Store.tla (process_domain, the nine propagators, process_extension_fd, labelling) is model-checked on every posting order of the MC_FD scope under several schedule indices: propagation never loses a solution, failure is never wrong, labelling returns exactly the brute-force solutions. Each behaviour is executed on the real code step by step and as a query; TLC checks that every answer assigns domain values satisfying all posted constraints (answer is a member of the specification's solution set).",
         "note": TN},
 "C17": {"ref": "DESIGN 5 C17", "technique": "same machinery as C16; completeness and multiplicity: answer multiset equals the brute-force solution set, per-step 'no solution lost' on recorded stores",
         "level": "Same scope as C16. TLC compares the multiset of recorded answers with the specification's labelled solutions (each exactly once) and, on the step-by-step runs, checks at every recorded store that no brute-force solution of the goals posted so far has been removed and that every failure is justified.",
         "note": TN},
 "C18": {"ref": "DESIGN 5 C18", "technique": "set-meaning specification of every FiniteDomain operation; TLC's state graph over a domain family becomes one implementation test per transition, judged by TLC",
         "level": "FDom.tla gives each operation its set meaning (checked for the algebraic laws by TLC); every domain of the family (intervals, sorted sparse lists, unsorted/duplicated vectors through From<Vec>) under every operation/operand/threshold is executed on the real FiniteDomain (identity and isize::MIN/MAX embeddings) and each result is compared by TLC.",
         "note": TN + " Extreme bounds only for operations that do not enumerate an interval."},
 "C19": {"ref": "DESIGN 5 C19", "technique": "TLA+ specification of plusz/timesz model-checked for exact denotation and 'decidable constraints are decided'; step-by-step trace validation on State and answer comparison",
         "level": "Every operand pattern (aliasing, zeros, non-divisible products) in every order with bindings is model-checked: the store denotes exactly the integer solutions and no stored constraint could already be decided. The same behaviours run on the real code; TLC compares success flag, substitution and the set of suspended constraints at every step, answers of the query form, and rejects panics.",
         "note": TN},
})

TEXT.update({
 "C04": {"ref": "DESIGN 5 C04", "technique": "order-freedom as an invariant of the model-checked store (Den / LabelExact over every posting order); permuted program variants replayed and compared by TLC against the reference and against each other",
         "level": "Flow A: the tree store and the FD store denote / label exactly the solutions of what was posted for EVERY posting order of the scopes. Flow B/C: every conjunction and disjunction of random eq/neq/FD/fresh/conde programs is permuted (all permutations for <= 3 goals), every variant is judged against the reference and all variants of a program against each other as multisets.",
         "note": TN},
 "C20": {"ref": "DESIGN 5 C20", "technique": "compounds are first-class terms of the TLA+ term algebra (model-checked MGU scope with compounds); compound programs replayed next to their tagged-list twins, judged by TLC",
         "level": "The unification scope with compounds (Pair, Box1, Tuple, nested, mixed with lists) is model-checked for MGU/occurs-check and replayed on State; random eq/neq programs over named, unnamed, recursive, tuple and Option compounds and FD programs with compound query terms are executed next to their tagged-list encodings; TLC compares each with the reference and the two twins with each other after encoding.",
         "note": TB},
 "C24": {"ref": "DESIGN 5 C24", "technique": "sequence-level TLA+ definitions of the relations; goal-AST transcriptions model-checked against them (LibCorrect); ground-instance counting of recorded answers against the sequence-level relation, by TLC",
         "level": "Lib.tla defines each relation on sequences; TLC checks that the specification's goal-AST definitions (evaluated by the reference semantics) have exactly those ground instances in every argument mode of the scope. The same mode instances and random ones run on the real relations; for every ground valuation of the test universe TLC counts the recorded answers having it as an instance and compares with the documented multiplicity (member: per position; member1 and the others: at most one; permute: membership).",
         "note": TB + " Known finding (open): permute accepts sub-multisets; pinned by test_permute_1."},
})

TEXT.update({
 "C21": {"ref": "DESIGN 5 C21", "technique": "sequence-view TLA+ specification of the LTerm container API; TLC's state graph over a bounded term universe becomes one implementation test per transition, judged by TLC (hash law asserted by the harness)",
         "level": "LTermOps.tla specifies every list operation on the element sequence (improper tail as last element) and == as structural equality with variable identity; every (operation, operands) of the MC_LTerm universe and random deeper terms are executed on the real LTerm and compared by TLC. TLA+ has no hash values: 'equal terms hash equally' is asserted by the harness for every pair the specification declares equal.",
         "note": TB},
 "C23": {"ref": "DESIGN 5 C23", "technique": "panic accounting over the well-formed programs of every generator of the framework; the judge (TLC trace validation) rejects any panic record",
         "level": "All seeded generators (which emit only well-formed programs) are run under catch_unwind with overflow checks on; a process that dies (stack overflow, abort) is isolated case by case. TLC's judge rejects every case whose end record is a panic. Every other check also rejects panics on its own TLC-enumerated cases.",
         "note": TB + " Known finding (open): project second visit."},
})

TSURF = ("Trusted: TLC, Json/IOUtils, the elaboration rules Kanren.Elab and the reference semantics, tools/surface.py (AST -> surface "
         "text printer), the Rust projectors. Bounded: program sizes of the generators. Programs the macro rejects are not part of the property.")
TEXT.update({
 "C13": {"ref": "DESIGN 5 C13", "technique": "TLA+ elaboration of match/matche/matcha/matchu into the core operators (Kanren.Elab); generated surface programs compiled against the working tree, answers validated by TLC against the elaborated reference",
         "level": "Kanren.Elab defines the documented meaning of the pattern-matching operators (one disjunct per arm and alternative, pattern names local to arm and alternative, repeated name = one variable, wildcards, matched term evaluated outside the pattern scope; matcha/matchu = committed choice over the same clauses). Random match expressions - including pattern variables that carry the name of an outer variable - are printed as Rust source, compiled against the current tree with the real macros, executed, and TLC compares the recorded answers with the reference semantics of the elaboration.",
         "note": TSURF},
 "C14": {"ref": "DESIGN 5 C14", "technique": "same programs through the macro (compiled surface source) and through the constructor API; TLC validates both against the reference semantics of the AST and against each other",
         "level": "Random programs over the clause grammar are run twice - printed as surface syntax and compiled with the real macros, and built through the public constructors - and TLC compares both answer streams with the reference semantics (per query variable, in declaration order) and with each other; lterm!(t) is compared with the written term. The goals the macros build take, step by step, exactly the engine steps of Search.tla built from the case AST (engine-level trace validation on both backends).",
         "note": TSURF},
 "C15": {"ref": "DESIGN 5 C15", "technique": "alpha-twin programs (shadowing names vs globally unique names) compiled and run; TLC compares twins with each other and with a reference that allocates new variables at every binder and unfolding",
         "level": "Programs with same-named variables in nested/sibling scopes, pattern variables and recursive relations whose bodies bind fresh variables named like the caller's are compiled next to their alpha-renamed twins; TLC checks that both have the answers of the reference semantics, in which every binder and every unfolding of a relation draws new variables from the reaching state's counter. One closure goal value entered two times on a path (goal form `twice`) must behave like the conjunction with a renamed copy.",
         "note": TSURF},
})

NOT_APPLICABLE = {}
