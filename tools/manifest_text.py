"""Per-property wording of MANIFEST.json."""
TB = ("Trusted: TLC and the CommunityModules Json/IOUtils operators, the reference semantics in the specification "
      "(Sat*, Eval), the Rust projectors of harness/src/project.rs. Bounded: term depth, variables, posts, universe "
      "(constants are in the evidence file).")
TEXT = {
 "C01": {"ref": "DESIGN 5 C01", "technique": "TLA+ spec of unification model-checked against ground-instance denotation; TLC-enumerated and random unifications replayed on State::unify and judged by TLC trace validation",
         "level": "The design (Store.tla UnifyRec/Unify) is model-checked exhaustively: every ordered pair of terms of two bounded universes (lists; compounds), Den = 'the store has exactly the ground unifiers as instances' over a universe with two fresh atoms (most-generality), acyclicity, identical resolution. Every enumerated pair plus seeded random deeper ones is executed on the real State::unify / `==` and each recorded step is validated by TLC against the specification (success flag, acyclic, store equivalent to the specification's MGU, extension exact, failure leaves the store unchanged).",
         "note": TB},
 "C02": {"ref": "DESIGN 5 C02", "technique": "TLA+ spec of the disequality store model-checked over all post sequences (order-freedom = denotation equality); step-by-step trace validation of State and query answers",
         "level": "Every sequence of <= K posts from 14 eq/neq goals is model-checked: the store denotes exactly the ground solutions of the posted goals (independent of order), normal form, hook balance. The same sequences are executed step by step on State and as queries, random programs with all/sampled permutations and nested conde/fresh are added, and TLC validates every recorded store (symbolic equivalence with the specification's store) and every answer multiset (up to renaming and logical equivalence of constraint sets).",
         "note": TB},
 "C03": {"ref": "DESIGN 5 C03", "technique": "trace validation of recorded answers against the TLA+ reification spec (closedness, naming bijection, constraint closure, relevance)",
         "level": "Each recorded answer (raw variable ids, is_any flags, attached store, constraints()/is_constrained() per query variable) is validated by TLC: only reified variables occur, reported disequalities mention only reified variables of that answer, constraints() returns every reported constraint on a variable occurring in the result at any depth (lists and compounds). Answers are also compared with the specification's Reify up to a renaming bijection.",
         "note": TB + " 'A constraint on v' is read as: v is an operand (key or variable right-hand side) of the disequality."},
 "C22": {"ref": "DESIGN 5 C22", "technique": "instrumented User type; TLC validates hook counters and extensions at every recorded store",
         "level": "The specification's store carries the hook counters (UserBalance, ExtensionExact are invariants of the model-checked design). The real code runs with an instrumented User type; at every store operation, probe and answer TLC checks with - take = |cstore|, that process_extension saw exactly the new bindings of each successful unification and nothing on failure.",
         "note": TB},
}
NOT_APPLICABLE = {}
