"""Per-property plans: which flow-A configurations are model-checked, which cases are executed,
which judge reasons decide the property."""
import gen
import vlib

TREE_INVS = ["Den", "AcyclicInv", "UnifiedIdentical", "NeqNormal", "UserBalance", "ExtensionExact", "EmitCase"]

R_STORE = {"spurious_failure", "spurious_success", "cyclic_substitution", "store_not_equivalent",
           "failure_changed_store"}
R_ANSWERS = {"invented_answer", "missing_answer", "wrong_multiplicity", "did_not_terminate"}
R_REIFY = {"answer_not_reified", "constraint_mentions_unreified_variable", "relevant_constraints_incomplete"}
R_HOOKS = {"hook_balance", "extension_mismatch", "extension_on_failure"}


def T(ctx, quick, thorough):
    return thorough if ctx["tier"] == "thorough" else quick


def mc(ctx, name, module, constants, invs, subst, workers=12, **kw):
    c = {"Emit": "TRUE", "Slots": "48"}
    c.update(constants)
    r = vlib.run_mc(ctx["prop"] + "_" + name, module, c, invs, subst, workers=workers, **kw)
    ctx["mc"].append(r)
    return r


def store_cases(ctx, res, prefix, as_query=False, qvars=None):
    """CASE lines of a StoreMC configuration -> `store` cases (and optionally the same
    sequence as a query program)."""
    out = []
    for n, c in enumerate(res["cases"]):
        vs = sorted(gen.vars_in(c["ops"]))
        out.append({"id": "%s-%s-s%d" % (ctx["prop"], prefix, n), "kind": "store", "vars": vs,
                    "k": c["k"], "ops": c["ops"]})
        if as_query:
            q = qvars if qvars is not None else vs
            out.append({"id": "%s-%s-q%d" % (ctx["prop"], prefix, n), "kind": "program", "mode": "query",
                        "qvars": q, "vars": [v for v in vs if v not in q], "body": c["ops"]})
    return out


def add(ctx, cases):
    ctx["cases"].extend(cases)


# ----------------------------------------------------------------------------- C01

def plan_c01(ctx):
    r = mc(ctx, "lists", "MC_Unify", {"K": "1", "Sched": "{0}", "Tag": '"ulist"', "WithPrior": "FALSE"},
           ["Den", "AcyclicInv", "UnifiedIdentical", "UserBalance", "ExtensionExact", "EmitCase"],
           {"GoalsAt": "UGoalsAt", "Vals": "UVals"})
    add(ctx, store_cases(ctx, r, "ul"))
    r = mc(ctx, "cmp", "MC_Unify", {"K": "1", "Sched": "{0}", "Tag": '"ucmp"', "WithPrior": "FALSE"},
           ["Den", "AcyclicInv", "UnifiedIdentical", "UserBalance", "ExtensionExact", "EmitCase"],
           {"GoalsAt": "CGoalsAt", "Vals": "CVals"})
    add(ctx, store_cases(ctx, r, "uc"))
    if ctx["tier"] == "thorough":
        r = mc(ctx, "prior", "MC_Unify", {"K": "2", "Sched": "{0}", "Tag": '"uprior"', "WithPrior": "TRUE",
                                          "Slots": "16"},
               ["Den", "AcyclicInv", "UnifiedIdentical", "UserBalance", "ExtensionExact", "EmitCase"],
               {"GoalsAt": "UGoalsAt", "Vals": "UVals"}, workers=16, timeout=7000)
        add(ctx, store_cases(ctx, r, "up"))
    # seeded random: deeper terms, more variables, priors, all literal kinds, compounds
    rng = ctx["rng"]
    n = T(ctx, 1500, 30000)
    for i in range(n):
        nv = rng.randint(1, 4)
        ops = gen.store_ops(rng, nv, rng.randint(1, 4), rng.randint(1, 4), p_neq=0.0)
        add(ctx, [{"id": "C01-r-s%d" % i, "kind": "store", "vars": list(range(1, nv + 1)), "k": 0, "ops": ops}])
        if i % 3 == 0:
            body = [["eq", o[1], o[2]] for o in ops]
            add(ctx, [{"id": "C01-r-q%d" % i, "kind": "program", "mode": "query",
                       "qvars": list(range(1, nv + 1)), "body": body}])


# ----------------------------------------------------------------------------- C02 / C03 / C22

def tree_scope(ctx, as_query):
    k = T(ctx, "3", "4")
    sched = T(ctx, "{0}", "{0, 1, 5}")
    r = mc(ctx, "tree", "MC_Tree", {"K": k, "Sched": sched, "Tag": '"tree"'}, TREE_INVS,
           {"GoalsAt": "TreeGoalsAt", "Vals": "TreeVals"}, workers=T(ctx, 12, 16), timeout=7000)
    cases = [c for c in r["cases"]]
    # the code is executed once per sequence (schedule index 0 only: the hook decides the order there)
    seen, uniq = set(), []
    for c in cases:
        key = str(c["ops"])
        if key not in seen:
            seen.add(key)
            uniq.append(c)
    r2 = dict(r)
    r2["cases"] = uniq
    return store_cases(ctx, r2, "t", as_query=as_query, qvars=[1, 2, 3])


def random_tree_programs(ctx, n, prefix, perms=6):
    rng = ctx["rng"]
    out = []
    for i in range(n):
        nv = rng.randint(1, 4)
        if rng.random() < 0.6:
            goals = gen.flat_tree_program(rng, nv, rng.randint(2, 6), rng.randint(1, 3))
            for j, body in enumerate(gen.permutations_of(goals, rng, perms)):
                out.append({"id": "%s-%s-f%d-%d" % (ctx["prop"], prefix, i, j), "kind": "program", "mode": "query",
                            "qvars": list(range(1, nv + 1)), "body": body})
        else:
            body = gen.nested_tree_program(rng, nv, rng.randint(1, 2), rng.randint(3, 8))
            out.append({"id": "%s-%s-n%d" % (ctx["prop"], prefix, i), "kind": "program", "mode": "query",
                        "qvars": list(range(1, nv + 1)), "body": body})
    return out


def plan_c02(ctx):
    add(ctx, tree_scope(ctx, as_query=True))
    add(ctx, random_tree_programs(ctx, T(ctx, 300, 6000), "r"))
    rng = ctx["rng"]
    for i in range(T(ctx, 400, 8000)):
        nv = rng.randint(1, 4)
        add(ctx, [{"id": "C02-r-s%d" % i, "kind": "store", "vars": list(range(1, nv + 1)), "k": 0,
                   "ops": gen.store_ops(rng, nv, rng.randint(2, 7), rng.randint(1, 3))}])


def plan_c03(ctx):
    cases = tree_scope(ctx, as_query=True)
    add(ctx, [c for c in cases if c["kind"] == "program"])
    add(ctx, random_tree_programs(ctx, T(ctx, 400, 8000), "r", perms=3))
    # answers that keep free variables inside lists and compounds, with disequalities on them
    rng = ctx["rng"]
    for i in range(T(ctx, 300, 6000)):
        nq = rng.randint(1, 3)
        hidden = [10 + j for j in range(rng.randint(0, 2))]
        tg = gen.TermGen(rng, list(range(1, nq + 1)) + hidden + [20, 21], compounds=True)
        body = []
        for q in range(1, nq + 1):
            if rng.random() < 0.7:
                body.append(["eq", ["var", q], tg.term(2)])
        for _ in range(rng.randint(1, 3)):
            body.append(["neq", ["var", rng.choice(list(range(1, nq + 1)) + hidden + [20, 21])], tg.term(1)])
        rng.shuffle(body)
        add(ctx, [{"id": "C03-c-%d" % i, "kind": "program", "mode": "query", "qvars": list(range(1, nq + 1)),
                   "body": [["fresh", hidden + [20, 21], body]]}])


def plan_c22(ctx):
    add(ctx, tree_scope(ctx, as_query=True))
    add(ctx, random_tree_programs(ctx, T(ctx, 300, 6000), "r", perms=3))
    rng = ctx["rng"]
    for i in range(T(ctx, 400, 8000)):
        nv = rng.randint(1, 4)
        add(ctx, [{"id": "C22-r-s%d" % i, "kind": "store", "vars": list(range(1, nv + 1)), "k": 0,
                   "ops": gen.store_ops(rng, nv, rng.randint(2, 7), rng.randint(1, 3), p_neq=0.6)}])


def has_tag(tag):
    return lambda c: tag in vlib.goal_tags(c)


PROPS = {
    "C01": {"plan": plan_c01, "reasons": R_STORE | R_ANSWERS,
            "rule": "exhaustive: every ordered pair of terms of the MC_Unify universes (lists; compounds), thorough: "
                    "after every prior of MC_Unify.Priors; random: 1-4 unifications of terms of depth <= 4 over <= 4 "
                    "variables.  A case is non-trivial when at least one side of a unification contains a variable.",
            "nontrivial": lambda c: len(gen.vars_in(c.get("ops", c.get("body")))) > 0,
            "assumptions": ["bounded term depth / variables / universe (constants in flow_A)",
                            "TLC, CommunityModules Json/IOUtils, the Rust projectors of harness/src/project.rs"]},
    "C02": {"plan": plan_c02, "reasons": R_STORE | R_ANSWERS,
            "rule": "exhaustive: every sequence of <= K posts from the 14 eq/neq goals of MC_Tree, executed step by step "
                    "on State and as a query; random: flat programs with all (<= 4 goals) or 6 permutations, nested "
                    "conde/fresh programs, random store-operation sequences.  Non-trivial: contains a disequality.",
            "nontrivial": lambda c: bool({"neq", "disunify"} & vlib.goal_tags(c)),
            "assumptions": ["finite ground universe for flow A (MC_Tree.TreeVals), symbolic store equivalence "
                            "(Store.TreeStoreEquiv) for flow C", "TLC, Json/IOUtils, harness projectors"]},
    "C03": {"plan": plan_c03, "reasons": R_REIFY,
            "rule": "queries of the MC_Tree scope, random tree programs, and programs whose answers keep free variables "
                    "inside lists/compounds with disequalities on visible and hidden variables.  Non-trivial: the "
                    "program has a disequality.",
            "nontrivial": lambda c: bool({"neq"} & vlib.goal_tags(c)),
            "assumptions": ["TLC, Json/IOUtils, harness projectors"]},
    "C22": {"plan": plan_c22, "reasons": R_HOOKS,
            "rule": "MC_Tree scope step by step on State and as queries (probe after reification), random programs and "
                    "store sequences with an instrumented User type.  Non-trivial: contains a disequality.",
            "nontrivial": lambda c: bool({"neq", "disunify"} & vlib.goal_tags(c)),
            "assumptions": ["TLC, Json/IOUtils, harness projectors; the User trait is the library's own extension interface"]},
}
