"""Per-property plans: which flow-A configurations are model-checked, which cases are executed,
which judge reasons decide the property."""
import itertools
import gen
import examples
import vlib

TREE_INVS = ["Den", "AcyclicInv", "UnifiedIdentical", "NeqNormal", "UserBalance", "ExtensionExact", "EmitCase"]

R_STORE = {"spurious_failure", "spurious_success", "cyclic_substitution", "store_not_equivalent",
           "failure_changed_store"}
R_ANSWERS = {"invented_answer", "missing_answer", "wrong_multiplicity", "did_not_terminate"}
R_REIFY = {"answer_not_reified", "constraint_mentions_unreified_variable", "relevant_constraints_incomplete"}
R_HOOKS = {"hook_balance", "extension_mismatch", "extension_on_failure"}


def T(ctx, quick, thorough):
    return thorough if ctx["tier"] == "thorough" else quick


def mc(ctx, name, module, constants, invs, subst, workers=12, **kw):
    if ctx.get("no_mc"):
        return {"cases": [], "distinct": 0, "generated": 0, "seconds": 0, "module": module, "constants": constants}
    c = {"Emit": "TRUE", "Slots": "48"}
    c.update(constants)
    r = vlib.run_mc(ctx["prop"] + "_" + name, module, c, invs, subst, workers=workers, **kw)
    ctx["mc"].append(r)
    return r


def store_cases(ctx, res, prefix, as_query=False, qvars=None):
    """CASE lines of a StoreMC configuration -> `store` cases (and optionally the same
    sequence as a query program)."""
    out = []
    for n, c in enumerate(res["cases"]):
        vs = sorted(gen.vars_in(c["ops"]))
        out.append({"id": "%s-%s-s%d" % (ctx["prop"], prefix, n), "kind": "store", "vars": vs,
                    "k": c["k"], "ops": c["ops"]})
        if as_query:
            q = qvars if qvars is not None else vs
            out.append({"id": "%s-%s-q%d" % (ctx["prop"], prefix, n), "kind": "program", "mode": "query",
                        "qvars": q, "vars": [v for v in vs if v not in q], "body": c["ops"]})
    return out


def add(ctx, cases):
    ctx["cases"].extend(cases)


# ----------------------------------------------------------------------------- C01

def plan_c01(ctx):
    r = mc(ctx, "lists", "MC_Unify", {"K": "1", "Sched": "{0}", "Tag": '"ulist"', "WithPrior": "FALSE"},
           ["Den", "AcyclicInv", "UnifiedIdentical", "UserBalance", "ExtensionExact", "EmitCase"],
           {"GoalsAfter": "UGoalsAfter", "Vals": "UVals"})
    add(ctx, store_cases(ctx, r, "ul"))
    r = mc(ctx, "cmp", "MC_Unify", {"K": "1", "Sched": "{0}", "Tag": '"ucmp"', "WithPrior": "FALSE"},
           ["Den", "AcyclicInv", "UnifiedIdentical", "UserBalance", "ExtensionExact", "EmitCase"],
           {"GoalsAfter": "CGoalsAfter", "Vals": "CVals"})
    add(ctx, store_cases(ctx, r, "uc"))
    if ctx["tier"] == "thorough":
        r = mc(ctx, "prior", "MC_Unify", {"K": "2", "Sched": "{0}", "Tag": '"uprior"', "WithPrior": "TRUE",
                                          "Slots": "16"},
               ["Den", "AcyclicInv", "UnifiedIdentical", "UserBalance", "ExtensionExact", "EmitCase"],
               {"GoalsAfter": "UGoalsAfter", "Vals": "UVals"}, workers=16, timeout=7000)
        add(ctx, store_cases(ctx, r, "up"))
    # seeded random: deeper terms, more variables, priors, all literal kinds, compounds
    rng = ctx["rng"]
    n = T(ctx, 1500, 30000)
    for i in range(n):
        nv = rng.randint(1, 4)
        ops = gen.store_ops(rng, nv, rng.randint(1, 4), rng.randint(1, 4), p_neq=0.0)
        add(ctx, [{"id": "C01-r-s%d" % i, "kind": "store", "vars": list(range(1, nv + 1)), "k": 0, "ops": ops}])
        if i % 3 == 0:
            body = [["eq", o[1], o[2]] for o in ops]
            add(ctx, [{"id": "C01-r-q%d" % i, "kind": "program", "mode": "query",
                       "qvars": list(range(1, nv + 1)), "body": body}])


# ----------------------------------------------------------------------------- C02 / C03 / C22

def tree_scope(ctx, as_query):
    k = T(ctx, "3", "4")
    sched = T(ctx, "{0}", "{0, 1, 5}")
    r = mc(ctx, "tree", "MC_Tree", {"K": k, "Sched": sched, "Tag": '"tree"'}, TREE_INVS,
           {"GoalsAfter": "TreeGoalsAfter", "Vals": "TreeVals"}, workers=T(ctx, 12, 16), timeout=7000)
    cases = [c for c in r["cases"]]
    # the code is executed once per sequence (schedule index 0 only: the hook decides the order there)
    seen, uniq = set(), []
    for c in cases:
        key = str(c["ops"])
        if key not in seen:
            seen.add(key)
            uniq.append(c)
    r2 = dict(r)
    r2["cases"] = uniq
    return store_cases(ctx, r2, "t", as_query=as_query, qvars=[1, 2, 3])


def random_tree_programs(ctx, n, prefix, perms=6):
    rng = ctx["rng"]
    out = []
    for i in range(n):
        nv = rng.randint(1, 4)
        if rng.random() < 0.6:
            goals = gen.flat_tree_program(rng, nv, rng.randint(2, 6), rng.randint(1, 3))
            for j, body in enumerate(gen.permutations_of(goals, rng, perms)):
                out.append({"id": "%s-%s-f%d-%d" % (ctx["prop"], prefix, i, j), "kind": "program", "mode": "query",
                            "qvars": list(range(1, nv + 1)), "body": body})
        else:
            body = gen.nested_tree_program(rng, nv, rng.randint(1, 2), rng.randint(3, 8))
            out.append({"id": "%s-%s-n%d" % (ctx["prop"], prefix, i), "kind": "program", "mode": "query",
                        "qvars": list(range(1, nv + 1)), "body": body})
    return out


def sched_sweep(ctx, n, prefix, group_check=None):
    """Programs whose stored constraints are re-run in every forced order (hook verif::schedule)."""
    rng = ctx["rng"]
    out = []
    for i in range(n):
        goals, nv = gen.sched_tree_program(rng)
        g = "%s-%s-%d" % (ctx["prop"], prefix, i)
        ks = [1, 2, 3, 4, 5, 6] + [rng.randint(7, 24) for _ in range(2)]
        for j, k in enumerate(ks):
            c = {"id": "%s-k%d" % (g, k) + ("" if j < 6 else "x%d" % j), "kind": "program", "mode": "query",
                 "qvars": list(range(1, nv + 1)), "body": goals, "sched": k, "after": 2}
            if group_check:
                c["group"] = g
                if j == len(ks) - 1:
                    c["gcheck"] = group_check
            out.append(c)
    return out


def plan_c02(ctx):
    add(ctx, tree_scope(ctx, as_query=True))
    add(ctx, sched_sweep(ctx, T(ctx, 150, 3000), "sw"))
    add(ctx, random_tree_programs(ctx, T(ctx, 300, 6000), "r"))
    rng = ctx["rng"]
    for i in range(T(ctx, 400, 8000)):
        nv = rng.randint(1, 4)
        add(ctx, [{"id": "C02-r-s%d" % i, "kind": "store", "vars": list(range(1, nv + 1)), "k": 0,
                   "ops": gen.store_ops(rng, nv, rng.randint(2, 7), rng.randint(1, 3))}])
    add(ctx, examples.all_examples("C02", ["diseq"]))     # /repo/examples/diseq.rs
    with_engine_records(ctx, every=T(ctx, 2, 8))


def plan_c03(ctx):
    cases = tree_scope(ctx, as_query=True)
    add(ctx, [c for c in cases if c["kind"] == "program"])
    add(ctx, random_tree_programs(ctx, T(ctx, 400, 8000), "r", perms=3))
    # answers that keep free variables inside lists and compounds, with disequalities on them
    rng = ctx["rng"]
    for i in range(T(ctx, 300, 6000)):
        nq = rng.randint(1, 3)
        hidden = [10 + j for j in range(rng.randint(0, 2))]
        tg = gen.TermGen(rng, list(range(1, nq + 1)) + hidden + [20, 21], compounds=True)
        body = []
        for q in range(1, nq + 1):
            if rng.random() < 0.7:
                body.append(["eq", ["var", q], tg.term(2)])
        for _ in range(rng.randint(1, 3)):
            body.append(["neq", ["var", rng.choice(list(range(1, nq + 1)) + hidden + [20, 21])], tg.term(1)])
        rng.shuffle(body)
        add(ctx, [{"id": "C03-c-%d" % i, "kind": "program", "mode": "query", "qvars": list(range(1, nq + 1)),
                   "body": [["fresh", hidden + [20, 21], body]]}])
    # disequalities with SEVERAL pairs whose variables are partly in the answer and partly hidden: such a
    # constraint restricts nothing that can be seen (the hidden variable can always differ) and must not be reported
    for i in range(T(ctx, 200, 4000)):
        nq = rng.randint(1, 2)
        qs = list(range(1, nq + 1))
        hidden = [10, 11]
        k = rng.randint(2, 3)
        pool = qs + hidden
        lhs = [["var", rng.choice(pool)] for _ in range(k)]
        if not any(x[1] in hidden for x in lhs):
            lhs[rng.randrange(k)] = ["var", rng.choice(hidden)]
        if not any(x[1] in qs for x in lhs):
            lhs[rng.randrange(k)] = ["var", rng.choice(qs)]
        rhs = [rng.choice([["num", rng.randint(1, 3)], ["num", rng.randint(1, 3)], ["var", rng.choice(pool)]]) for _ in range(k)]
        wrap = rng.choice(["list", "list", "cmp"])
        mk = (lambda xs: ["list", xs]) if wrap == "list" or k != 2 else (lambda xs: ["cmp", "Pair", xs])
        body = [["neq", mk(lhs), mk(rhs)]]
        for _ in range(rng.randint(0, 2)):
            r = rng.random()
            if r < 0.4:
                body.append(["eq", ["var", rng.choice(qs)], rng.choice([["num", rng.randint(1, 3)], ["list", [["var", rng.choice(pool)]]]])])
            elif r < 0.7:
                body.append(["neq", ["var", rng.choice(qs)], ["num", rng.randint(1, 3)]])
            else:
                body.append(["eq", ["var", rng.choice(hidden)], ["num", rng.randint(1, 3)]])
        rng.shuffle(body)
        add(ctx, [{"id": "C03-h-%d" % i, "kind": "program", "mode": "query", "qvars": qs,
                   "body": [["fresh", hidden, body]]}])
    with_engine_records(ctx, every=T(ctx, 2, 8))


def plan_c22(ctx):
    add(ctx, tree_scope(ctx, as_query=True))
    add(ctx, random_tree_programs(ctx, T(ctx, 300, 6000), "r", perms=3))
    rng = ctx["rng"]
    for i in range(T(ctx, 400, 8000)):
        nv = rng.randint(1, 4)
        add(ctx, [{"id": "C22-r-s%d" % i, "kind": "store", "vars": list(range(1, nv + 1)), "k": 0,
                   "ops": gen.store_ops(rng, nv, rng.randint(2, 7), rng.randint(1, 3), p_neq=0.6)}])
    # one unification makes stored disequalities subsume / duplicate each other in the middle of a pass
    # of run_constraints, under every forced order of that pass: a constraint that has already left the
    # store when its turn comes must not be reported as taken a second time
    add(ctx, sched_sweep(ctx, T(ctx, 60, 1200), "sw"))
    for i in range(T(ctx, 120, 2400)):
        goals, nv = gen.collapse_neq_program(rng)
        vs = list(range(1, nv + 1))
        add(ctx, [{"id": "C22-cn-s%d" % i, "kind": "store", "vars": vs, "k": 0, "ops": goals}])
        for k in (0, 1, 2):
            add(ctx, [{"id": "C22-cn-q%d-k%d" % (i, k), "kind": "program", "mode": "query", "qvars": vs, "body": goals,
                       "sched": k, "after": 1}])
    # CLP(FD) and CLP(Z) programs: constraints that are not disequalities enter and leave the store on
    # other paths (labelling, resolution, the store replacement at reification)
    for c in fd_random(ctx, T(ctx, 150, 3000), "f"):
        add(ctx, [c])
    for i in range(T(ctx, 250, 5000)):
        nv = rng.randint(1, 3)
        vs = list(range(1, nv + 1))
        o = lambda: ["var", rng.choice(vs)] if rng.random() < 0.7 else ["num", rng.randint(-4, 4)]
        zs = lambda: [[rng.choice(["plusz", "timesz"]), o(), o(), o()] for _ in range(rng.randint(1, 2))]
        t = lambda: ["eq" if rng.random() < 0.6 else "neq", ["var", rng.choice(vs)],
                     ["num", rng.randint(-4, 4)] if rng.random() < 0.7 else ["var", rng.choice(vs)]]
        goals = zs() + [t() for _ in range(rng.randint(0, 2))]
        if rng.random() < 0.5:
            goals.append(["conde", [zs() + [t()][:rng.randint(0, 1)], [t()] + zs()[:rng.randint(0, 1)]]])
        rng.shuffle(goals)
        add(ctx, [{"id": "C22-z-q%d" % i, "kind": "program", "mode": "query", "qvars": vs, "body": goals, "after": 1}])


def has_tag(tag):
    return lambda c: tag in vlib.goal_tags(c)


PROPS = {
    "C01": {"plan": plan_c01, "reasons": R_STORE | R_ANSWERS,
            "rule": "exhaustive: every ordered pair of terms of the MC_Unify universes (lists; compounds), thorough: "
                    "after every prior of MC_Unify.Priors; random: 1-4 unifications of terms of depth <= 4 over <= 4 "
                    "variables.  A case is non-trivial when at least one side of a unification contains a variable.",
            "nontrivial": lambda c: len(gen.vars_in(c.get("ops", c.get("body")))) > 0,
            "assumptions": ["bounded term depth / variables / universe (constants in flow_A)",
                            "TLC, CommunityModules Json/IOUtils, the Rust projectors of harness/src/project.rs"]},
    "C02": {"plan": plan_c02, "reasons": R_STORE | R_ANSWERS,
            "rule": "exhaustive: every sequence of <= K posts from the 14 eq/neq goals of MC_Tree, executed step by step "
                    "on State and as a query; random: flat programs with all (<= 4 goals) or 6 permutations, nested "
                    "conde/fresh programs, random store-operation sequences.  Non-trivial: contains a disequality.",
            "nontrivial": lambda c: bool({"neq", "disunify"} & vlib.goal_tags(c)),
            "assumptions": ["finite ground universe for flow A (MC_Tree.TreeVals), symbolic store equivalence "
                            "(Store.TreeStoreEquiv) for flow C", "TLC, Json/IOUtils, harness projectors"]},
    "C03": {"plan": plan_c03, "reasons": R_REIFY,
            "rule": "queries of the MC_Tree scope, random tree programs, and programs whose answers keep free variables "
                    "inside lists/compounds with disequalities on visible and hidden variables.  Non-trivial: the "
                    "program has a disequality.",
            "nontrivial": lambda c: bool({"neq"} & vlib.goal_tags(c)),
            "assumptions": ["TLC, Json/IOUtils, harness projectors"]},
    "C22": {"plan": plan_c22, "reasons": R_HOOKS | {"user_trail_differs"},
            "rule": "MC_Tree scope step by step on State and as queries (probe after reification), random programs and "
                    "store sequences with an instrumented User type; random CLP(FD) programs and CLP(Z) programs whose "
                    "constraints survive to the answer (alone, next to disequalities, per branch).  Non-trivial: contains "
                    "a constraint (disequality, FD or Z).",
            "nontrivial": lambda c: bool({"neq", "disunify", "plusz", "timesz", "dom", "plusfd", "ltefd", "neqfd"} & vlib.goal_tags(c)),
            "assumptions": ["TLC, Json/IOUtils, harness projectors; the User trait is the library's own extension interface"]},
}


# ----------------------------------------------------------------------------- search engine

SEARCH_INVS = ["NoInvention", "DfsPrefix", "Complete", "Terminates", "StepPreservesBag", "EmitCase"]
R_ORDER = {"wrong_order"}
R_GROUP = {"group_bags_differ", "group_sequences_differ", "group_union_differs"}


def search_mc(ctx, name, scope, dfs, fuel=400, workers=12):
    return mc(ctx, name, "MC_Search", {"Dfs": "TRUE" if dfs else "FALSE", "Fuel": str(fuel), "Tag": '"%s"' % name},
              SEARCH_INVS, {"Scope": scope}, workers=workers)


def search_mc_many(ctx, specs):
    """Several MC_Search configurations side by side (they are independent TLC runs);
    specs = [(name, scope, dfs)], results in the same order."""
    from concurrent.futures import ThreadPoolExecutor
    w = max(3, 14 // len(specs))
    with ThreadPoolExecutor(max_workers=len(specs)) as ex:
        futs = [ex.submit(search_mc, ctx, n, sc, d, 400, w) for (n, sc, d) in specs]
        return [f.result() for f in futs]


def mc_query_cases(ctx, res, prefix, ordered=False):
    """CASE lines of a query scope of MC_Search (goal = <<"query", qvars, body>>) -> query cases whose engine
    steps are validated against Search.tla (the whole pipeline: body, state::reified, labelling)."""
    out = []
    for n, c in enumerate(res["cases"]):
        g = c["goal"]
        case = {"id": "%s-%s-%d" % (ctx["prop"], prefix, n), "kind": "program", "mode": "query", "qvars": g[1],
                "body": g[2], "budget": 20 * c["ticks"] + 1000, "after": 1}
        if c["phase"] == "exhausted":
            case["ticks"] = c["ticks"]
            case["engine"] = True
        if ordered:
            case["ordered"] = True
        out.append(case)
    return out


def solver_cases(ctx, res, prefix, ordered=False):
    out = []
    for n, c in enumerate(res["cases"]):
        case = {"id": "%s-%s-%d" % (ctx["prop"], prefix, n), "kind": "program", "mode": "solver", "goal": c["goal"],
                "budget": 20 * c["ticks"] + 1000, "after": 3}
        if c["phase"] == "exhausted":
            case["ticks"] = c["ticks"]
            # engine-level trace validation: every iteration of Solver::next records the stream
            # skeleton, the judge steps Search.tla alongside (diagnostic `engine_shape_mismatch`)
            case["engine"] = True
        if ordered:
            case["ordered"] = True
        out.append(case)
    return out


def query(ctx, cid, nq, body, **kw):
    c = {"id": cid, "kind": "program", "mode": "query", "qvars": list(range(1, nq + 1)), "body": body,
         "budget": 400000, "after": 2}
    c.update(kw)
    return c


ENGINE_TAGS = {"eq", "neq", "conde", "cond", "fresh", "dfs", "conj", "rawconj", "rawdisj", "disj", "succeed", "fail",
               "leaf", "conda", "condu", "onceo", "call", "call:member", "call:member1", "call:append", "call:rember",
               "call:cons", "call:empty", "for", "project", "show", "isnum", "isground",
               # term constructors
               "var", "num", "sym", "list", "ilist", "cons", "nil", "cmp", "any"}


FD_ENGINE_TAGS = {"dom", "itv", "vec", "ltefd", "ltfd", "neqfd", "distinctfd"}


def with_engine_records(ctx, every=1, extra=frozenset()):
    """Engine-level trace validation for the query cases planned so far whose goals Search.tla models step by
    step (tree constraints, the search operators, the closure-based library relations): the harness records
    the stream skeleton at every iteration of Solver::next, the judge steps the specification alongside.
    Diagnostic only (`engine_shape_mismatch` is never a verdict)."""
    n = 0
    for c in ctx["cases"]:
        if c.get("mode") == "query" and c.get("backend") != "surface" \
                and not c.get("sched") and vlib.goal_tags({"b": c["body"]}) <= (ENGINE_TAGS | extra):
            n += 1
            if n % every == 0:
                c["engine"] = True


def plan_c05(ctx):
    rd, rm, rq = search_mc_many(ctx, [("dfs", T(ctx, "DfsSmall", "DfsFull"), True), ("mixed", "Mixed", False),
                                      ("qdfs", T(ctx, "QDfsSmall", "QDfs"), True)])
    add(ctx, solver_cases(ctx, rd, "d", ordered=True))
    add(ctx, solver_cases(ctx, rm, "m"))
    # whole queries: the order must survive reification and labelling (blockwise: labelling is an
    # interleaving search of its own)
    add(ctx, mc_query_cases(ctx, rq, "q", ordered=True))
    rng = ctx["rng"]
    for i in range(T(ctx, 400, 8000)):
        nq = rng.randint(1, 2)
        body = gen.search_program(rng, nq, rng.randint(2, 6), dfs=True)
        add(ctx, [query(ctx, "C05-r-%d" % i, nq, [["dfs", [body]]], ordered=True)])
    # dfs { } embedded under a BFS parent: the embedded block keeps its own order
    for i in range(T(ctx, 100, 2000)):
        nq = rng.randint(1, 2)
        inner = gen.search_program(rng, nq, rng.randint(2, 4), dfs=True)
        add(ctx, [query(ctx, "C05-e-%d" % i, nq, [["dfs", [inner]], ["eq", ["var", 1], ["var", 1]]], ordered=True)])


    # answers whose reification costs differ widely (deep lists and compounds against atoms): the
    # query boundary must not let a cheap answer overtake an expensive one
    for i in range(T(ctx, 150, 3000)):
        nq = rng.randint(1, 2)
        cls = []
        for j in range(rng.randint(2, 4)):
            v = ["var", rng.randint(1, nq)]
            deep = rng.random() < 0.5
            if deep:
                t = ["list", [["num", rng.randint(0, 3)] for _ in range(rng.randint(1, 6))]]
                if rng.random() < 0.3:
                    t = ["cmp", "Pair", [t, ["list", [["num", j], t]]]]
            else:
                t = ["num", 10 + j]
            cls.append([["eq", v, t] if rng.random() < 0.5 else ["eq", t, v]])
        add(ctx, [query(ctx, "C05-w-%d" % i, nq, [["dfs", [[["cond", cls]]]]], ordered=True)])
    with_engine_records(ctx)


def plan_c06(ctx):
    r, rq = search_mc_many(ctx, [("bfs", T(ctx, "BfsSmall", "B2"), False), ("qbfs", T(ctx, "QBfsSmall", "QBfs"), False)])
    add(ctx, solver_cases(ctx, r, "b"))
    add(ctx, mc_query_cases(ctx, rq, "q"))
    rng = ctx["rng"]
    n = T(ctx, 300, 6000)
    for i in range(n):
        nq = rng.randint(1, 2)
        st = rng.getstate()
        body = gen.search_program(rng, nq, rng.randint(2, 6), dfs=False)
        rng.setstate(st)
        dbody = gen.search_program(rng, nq, 0, dfs=True) if False else None
        # the same program three ways: as written, inside dfs { } (cond for conde), raw Conj nesting
        rng.setstate(st)
        body_d = gen.search_program(rng, nq, rng.randint(2, 6), dfs=True)
        if i % 3 == 0:
            # literal `true` goals between the others (constant folding in the conjunction constructors)
            for _ in range(rng.randint(1, 2)):
                k = rng.randint(0, len(body))
                body = body[:k] + [["succeed"]] + body[k:]
                body_d = body_d[:k] + [["succeed"]] + body_d[k:]
        g = "C06-g%d" % i
        add(ctx, [query(ctx, g + "-a", nq, body, group=g),
                  query(ctx, g + "-b", nq, [["dfs", [body_d]]], group=g),
                  query(ctx, g + "-c", nq, [raw_conj(body)], group=g, gcheck="same_bag")])
    # infinite answer streams: every answer of a bounded prefix is an answer
    for i in range(T(ctx, 60, 1200)):
        nq = 1
        k = rng.randint(1, 3)
        prod = ["loop", [[["conde", [[["eq", ["var", 1], ["num", j]]] for j in range(k)]]]]]
        pre = gen.search_program(rng, nq, rng.randint(0, 2), lib=False)
        add(ctx, [query(ctx, "C06-inf-%d" % i, nq, pre + [prod], take=rng.randint(3, 12), fuel=14)])
        if i % 2 == 0:
            # `true` in front of the goals of a loop / onceo body
            g2 = rng.choice([["loop", [[["succeed"], ["conde", [[["eq", ["var", 1], ["num", j]]] for j in range(k)]]]]],
                             ["onceo", [[["succeed"], ["conde", [[["eq", ["var", 1], ["num", j]]] for j in range(k)]]]]]])
            add(ctx, [query(ctx, "C06-inft-%d" % i, nq, pre + [g2], take=rng.randint(3, 8), fuel=14)])
        add(ctx, [query(ctx, "C06-infm-%d" % i, 2, [["call", "member", [["num", 1], ["var", 1]]],
                                                    ["call", "append", [["var", 2], ["list", [["num", 2]]], ["var", 1]]]][:rng.randint(1, 2)],
                        take=rng.randint(2, 5), fuel=9)])
    add(ctx, examples.all_examples("C06", ["simple", "tree_nodes"]))   # /repo/examples as cases
    with_engine_records(ctx, every=T(ctx, 1, 4))


def raw_conj(goals):
    if not goals:
        return ["succeed"]
    g = goals[-1]
    for x in reversed(goals[:-1]):
        g = ["rawconj", x, g]
    return g


def plan_c08(ctx):
    r = search_mc(ctx, "commit", "CommitScope", False)
    add(ctx, solver_cases(ctx, r, "c"))
    rng = ctx["rng"]
    for i in range(T(ctx, 300, 6000)):
        nq = rng.randint(1, 2)
        op = rng.choice(["conda", "condu", "onceo"])
        ncl = 1 if op == "onceo" else rng.randint(1, 3)
        cls = []
        for _ in range(ncl):
            head = gen.search_program(rng, nq, rng.randint(1, 3), lib=True)
            if len(head) != 1:
                head = [["conj", head]]
            rest = gen.search_program(rng, nq, rng.randint(0, 2), lib=True)
            cls.append(head + rest)
        if op != "onceo" and rng.random() < 0.3:
            # nested committed choice: the last clause is one inner conda / condu / onceo goal
            iop = rng.choice(["conda", "condu", "onceo"])
            ihead = gen.search_program(rng, nq, rng.randint(1, 2), lib=True)
            if len(ihead) != 1:
                ihead = [["conj", ihead]]
            irest = [] if iop == "onceo" else gen.search_program(rng, nq, rng.randint(0, 2), lib=True)
            cls.append([[iop, [ihead + irest]]])
        pre = gen.search_program(rng, nq, rng.randint(0, 2), lib=True)
        post = gen.search_program(rng, nq, rng.randint(0, 1), lib=False)
        add(ctx, [query(ctx, "C08-r-%d" % i, nq, pre + [[op, cls]] + post)])
    # heads with infinitely many answers: condu / onceo still commit to the first one
    for i in range(T(ctx, 40, 800)):
        head = rng.choice([["always"], ["loop", [[["conde", [[["eq", ["var", 1], ["num", 1]]], [["eq", ["var", 1], ["num", 2]]]]]]]],
                           ["call", "member", [["num", 1], ["var", 1]]]])
        op = rng.choice(["condu", "onceo"])
        cl = [head] + ([] if op == "onceo" else gen.search_program(rng, 1, rng.randint(0, 1), lib=False))
        add(ctx, [query(ctx, "C08-inf-%d" % i, 1, [[op, [cl]]], fuel=8)])
    with_engine_records(ctx, every=1)


ISO_GOALS = None


def iso_goal(rng, tg):
    r = rng.random()
    if r < 0.3:
        return gen.tree_goal(tg, 1, p_neq=0.0)
    if r < 0.55:
        return gen.tree_goal(tg, 1, p_neq=1.0)
    if r < 0.75:
        return ["leaf", "t%d" % rng.randint(1, 3)]
    if r < 0.9:
        return gen.lib_goal(rng, tg)
    return ["project", [1], [["show", ["var", 1]]]]


def plan_c10(ctx):
    rng = ctx["rng"]
    for i in range(T(ctx, 350, 7000)):
        nq = rng.randint(1, 3)
        tg = gen.TermGen(rng, range(1, nq + 1), compounds=False, syms=False, nums=[1, 2, 3])
        prefix = [iso_goal(rng, tg) for _ in range(rng.randint(0, 3))]
        prefix = [g for g in prefix if g[0] != "project" or True]
        A = [iso_goal(rng, tg) for _ in range(rng.randint(1, 3))]
        B = [iso_goal(rng, tg) for _ in range(rng.randint(1, 3))]
        post = [iso_goal(rng, tg) for _ in range(rng.randint(0, 1))]
        g = "C10-g%d" % i
        add(ctx, [query(ctx, g + "-ab", nq, prefix + [["conde", [A, B]]] + post, group=g),
                  query(ctx, g + "-a", nq, prefix + A + post, group=g),
                  query(ctx, g + "-b", nq, prefix + B + post, group=g, gcheck="union"),
                  query(ctx, g + "-ba", nq, prefix + [["conde", [B, A]]] + post)])
    plan_c10_fd(ctx)
    plan_c10_dom(ctx)
    with_engine_records(ctx, every=2)


def plan_c10_fd(ctx):
    """FD / CLP(Z) flavoured isolation cases: a shared constraint object in the prefix, branches that bind one or
    several of its variables (a shared DistinctFd2Constraint is updated in place behind Rc::make_mut)."""
    rng = ctx["rng"]
    for i in range(T(ctx, 250, 5000)):
        nv = rng.randint(2, 3)
        vs = list(range(1, nv + 1))
        lo, hi = rng.choice([(1, 3), (0, 2), (-2, 2)])
        withdom = True   # every FD operand needs a domain before labelling (well-formedness)
        prefix = [["dom", ["list", [["var", v] for v in vs]], ["itv", lo, hi]]] if withdom else []
        prefix += [rng.choice([["distinctfd", ["list", [["var", v] for v in vs]]],
                               ["distinctfd", ["list", [["var", vs[0]], ["num", lo], ["var", vs[1]]]]],
                               gen.fd_constraint(rng, vs, lo, hi)]) for _ in range(rng.randint(1, 2))]
        if not withdom:
            prefix = [p for p in prefix if p[0] == "distinctfd"] or [["distinctfd", ["list", [["var", v] for v in vs]]]]

        def branch():
            gs = []
            for _ in range(rng.randint(1, 2)):
                r = rng.random()
                if r < 0.5:
                    k = rng.randint(2, nv)
                    gs.append(["eq", ["list", [["var", v] for v in vs[:k]]], ["list", [["num", rng.randint(lo, hi)] for _ in range(k)]]])
                elif r < 0.8:
                    gs.append(["eq", ["var", rng.choice(vs)], ["num", rng.randint(lo, hi)]])
                else:
                    gs.append(gen.fd_constraint(rng, vs, lo, hi) if withdom else ["eq", ["var", vs[0]], ["var", vs[1]]])
            return gs

        A, B, C = branch(), branch(), branch()
        g = "C10-fd%d" % i
        add(ctx, [query(ctx, g + "-abc", nv, prefix + [["conde", [A, B, C]]], group=g),
                  query(ctx, g + "-a", nv, prefix + A, group=g),
                  query(ctx, g + "-b", nv, prefix + B, group=g),
                  query(ctx, g + "-c", nv, prefix + C, group=g, gcheck="union"),
                  query(ctx, g + "-cba", nv, prefix + [["conde", [C, B, A]]])])


def plan_c10_dom(ctx):
    """Domains handed out INSIDE branches: a variable without a domain in the shared prefix gets its first domain
    (or a value, or nothing) in each branch; the domain store of the forked states must not be shared."""
    rng = ctx["rng"]
    for i in range(T(ctx, 250, 5000)):
        nv = rng.randint(2, 3)
        vs = list(range(1, nv + 1))
        x, rest = vs[0], vs[1:]
        lo, hi = rng.choice([(1, 4), (0, 3), (-2, 2)])
        prefix = []
        if rng.random() < 0.6:
            prefix.append(["dom", ["list", [["var", v] for v in rest]], ["itv", lo, hi]])
            if rng.random() < 0.5 and len(rest) >= 2:
                prefix.append(gen.fd_constraint(rng, rest, lo, hi))
            have = True
        else:
            have = False

        def branch():
            r = rng.random()
            if r < 0.5:
                gs = [["dom", ["var", x], gen.fd_domain(rng, lo, hi)]]
                if have and rng.random() < 0.4:
                    gs.append(gen.fd_constraint(rng, [x, rest[0]], lo, hi))
            elif r < 0.7:
                gs = [["eq", ["var", x], ["num", rng.randint(lo - 1, hi + 1)]]]
            elif r < 0.85:
                gs = [["eq", ["var", rest[0]], ["num", rng.randint(lo, hi)]]]
            else:
                gs = [["eq", ["var", x], ["var", rest[0]]]]
            if rng.random() < 0.3:
                gs.append(["eq", ["var", rng.choice(rest)], ["num", rng.randint(lo, hi)]])
            return gs

        A, B, C = branch(), branch(), branch()
        g = "C10-dm%d" % i
        add(ctx, [query(ctx, g + "-abc", nv, prefix + [["conde", [A, B, C]]], group=g),
                  query(ctx, g + "-a", nv, prefix + A, group=g),
                  query(ctx, g + "-b", nv, prefix + B, group=g),
                  query(ctx, g + "-c", nv, prefix + C, group=g, gcheck="union"),
                  query(ctx, g + "-cba", nv, prefix + [["conde", [C, B, A]]])])


def plan_c11(ctx):
    rng = ctx["rng"]
    vals_pool = [["num", 1], ["num", 2], ["list", [["num", 3]]], ["sym", "s:a"], ["var", 2], ["cmp", "Pair", [["num", 1], ["var", 2]]]]

    def body_of():
        body = [rng.choice([["show", ["var", 1]], ["isnum", ["var", 1]], ["isground", ["var", 1]], ["isground", ["var", 1]]])
                for _ in range(rng.randint(1, 2))]
        if rng.random() < 0.5:
            body.append(["eq", ["var", 2], ["var", 1]])
        return body

    for i in range(T(ctx, 400, 8000)):
        k = rng.choice([1, 1, 2, 3, 4])
        vals = [rng.choice(vals_pool) for _ in range(k)]
        if rng.random() < 0.5:
            # values whose inner variables are bound separately (the projected value must be the
            # FULLY walked term), also through variable-to-variable chains
            chain = [["eq", ["var", 5], rng.choice([["num", 7], ["list", [["num", 8], ["var", 6]]]])],
                     ["eq", ["var", 6], ["num", 9]], ["eq", ["var", 4], ["var", 5]]]
            rng.shuffle(chain)
            vals = [rng.choice([["list", [["num", 1], ["var", 4]]], ["cmp", "Pair", [["var", 5], ["list", [["var", 4]]]]],
                                ["var", 4], ["ilist", [["var", 6], ["var", 4]]]]) for _ in range(k)]
            cut = rng.randint(0, len(chain))
            how = rng.choice(["conde", "each", "each", "each", "member"])   # mostly one project goal per branch (see finding 17)
            take = 1000
            if how == "each":
                body = chain[:cut] + [["conde", [[["eq", ["var", 1], v]] + chain[cut:] + [["project", [1], body_of()]] for v in vals]]]
            elif how == "conde":
                body = chain[:cut] + [["conde", [[["eq", ["var", 1], v]] for v in vals]]] + chain[cut:] + [["project", [1], body_of()]]
            else:
                body = chain[:cut] + [["call", "member", [["var", 1], ["list", vals]]]] + chain[cut:] + [["project", [1], body_of()]]
            add(ctx, [query(ctx, "C11-w-%d" % i, 2, [["fresh", [4, 5, 6], body]], take=take, fuel=10)])
            continue
        how = rng.choice(["member", "conde", "loop", "each", "each", "each"])
        take = 1000
        if how == "each":
            # one project goal PER branch (each has its own projection cell)
            body = [["conde", [[["eq", ["var", 1], v], ["project", [1], body_of()]] for v in vals]]]
        else:
            if how == "member":
                pre = [["call", "member", [["var", 1], ["list", vals]]]]
            elif how == "conde":
                pre = [["conde", [[["eq", ["var", 1], v]] for v in vals]]]
            else:
                pre = [["loop", [[["conde", [[["eq", ["var", 1], v]] for v in vals]]]]]]
                take = rng.randint(2, 6)
            body = pre + [["project", [1], body_of()]]
        add(ctx, [query(ctx, "C11-r-%d" % i, 2, body, take=take, fuel=10)])
    # several projected variables at once: each one sees ITS OWN current value (one project goal per branch)
    for i in range(T(ctx, 120, 2400)):
        n = rng.randint(2, 4)
        pv = list(range(10, 10 + n))

        def branch():
            vals = [rng.choice(vals_pool[:4] + [["num", 5], ["num", 6], ["list", [["num", 1], ["num", 2]]]]) for _ in pv]
            binds = [["eq", ["var", v], t] for v, t in zip(pv, vals)]
            rng.shuffle(binds)
            body = [rng.choice([["show", ["var", v]], ["show", ["var", v]], ["isnum", ["var", v]]]) for v in pv]
            if rng.random() < 0.5:
                rng.shuffle(body)
            body.append(["eq", ["var", 1], ["list", [["var", v] for v in pv]]])
            order = pv[:] if rng.random() < 0.5 else rng.sample(pv, len(pv))
            return binds + [["project", order, body]]

        nb = rng.randint(1, 3)
        body = branch() if nb == 1 else [["conde", [branch() for _ in range(nb)]]]
        add(ctx, [query(ctx, "C11-m-%d" % i, 1, [["fresh", pv, body]], take=1000, fuel=10)])
    with_engine_records(ctx, every=1)


def plan_c12(ctx):
    rng = ctx["rng"]
    for i in range(T(ctx, 300, 6000)):
        nq = rng.randint(1, 3)
        tg = gen.TermGen(rng, range(1, nq + 1), compounds=False, syms=False, nums=[1, 2, 3])
        coll = [tg.atom() for _ in range(rng.randint(0, 3))]
        x = 50
        bodies = []
        lists = i % 3 == 2
        if lists:
            # collections of LISTS, the empty list among them (an element like every other)
            coll = [rng.choice([["list", []], ["list", []], ["list", [["num", 1]]], ["list", [["num", 2], ["num", 1]]],
                                ["list", [tg.atom()]]]) for _ in range(rng.randint(1, 3))]
        for _ in range(rng.randint(1, 2)):
            r = rng.random()
            if lists:
                bodies.append(rng.choice([
                    [["call", "member", [["num", 1], ["var", x]]]],
                    [["neq", ["var", x], ["list", []]]],
                    [["conde", [[["eq", ["var", x], ["list", []]]], [["call", "member", [["num", 1], ["var", x]]]], [["succeed"]]]]],
                    [["call", "append", [["var", x], ["list", [["num", 3]]], ["var", 1]]]]]))
            elif r < 0.4:
                bodies.append([["call", "member", [["var", x], gen.small_list(rng, gen.TermGen(rng, [], compounds=False, syms=False, nums=[1, 2, 3]))]]])
            elif r < 0.7:
                bodies.append([["neq", ["var", x], ["num", rng.randint(1, 3)]]])
            elif r < 0.88:
                bodies.append([["conde", [[["eq", ["var", x], ["num", 1]]], [["eq", ["var", x], ["num", 2]]]]]])
            else:
                # a body that is statically fail / succeed when the goal is built (constant folding of Conj)
                bodies.append(rng.choice([[["fail"]], [["eq", ["var", x], ["num", 1]], ["fail"]], [["succeed"]],
                                          [["succeed"], ["neq", ["var", x], ["num", 2]]]]))
        pre = gen.search_program(rng, nq, rng.randint(0, 2), lib=False)
        explicit = []
        for t in coll:
            for cl in bodies:
                explicit.extend(subst(cl, x, t))
        g = "C12-g%d" % i
        add(ctx, [query(ctx, g + "-for", nq, pre + [["for", x, coll, bodies]], group=g),
                  query(ctx, g + "-conj", nq, pre + explicit, group=g, gcheck="same_bag")])
    with_engine_records(ctx, every=1)


def subst(x, vid, t):
    if isinstance(x, list):
        if len(x) == 2 and x[0] == "var" and x[1] == vid:
            return t
        return [subst(y, vid, t) for y in x]
    return x


SEARCH_ASSUME = ["goal trees of bounded depth over trail leaves (flow A scopes in spec/MC_Search.tla), bounded unfolding "
                 "fuel for recursive relations", "TLC, Json/IOUtils, harness projectors"]
PROPS.update({
    "C05": {"plan": plan_c05, "reasons": R_ANSWERS | R_ORDER,
            "rule": "exhaustive: every DFS goal tree of MC_Search.DfsSmall/DfsFull (dfs{} around conj/cond/fresh/raw "
                    "DFSConj/DFSDisj over leaves a, b, fail, succeed) and dfs{} embedded in BFS parents; random: "
                    "programs with cond, fresh, eq/neq, member/append/rember inside dfs{}, compared position by position. "
                    "Non-trivial: the program has a disjunction (cond/rawdisj/call).",
            "nontrivial": lambda c: bool({"cond", "rawdisj", "call", "disj"} & vlib.goal_tags(c)),
            "assumptions": SEARCH_ASSUME},
    "C06": {"plan": plan_c06, "reasons": R_ANSWERS | {"group_bags_differ"},
            "rule": "exhaustive: every BFS goal tree of MC_Search.BfsSmall/B2; random: each program three ways (as written, "
                    "inside dfs{}, raw Conj nesting) judged against the reference and against each other; infinite "
                    "producers with a bounded prefix.  Non-trivial: has a disjunction.",
            "nontrivial": lambda c: bool({"conde", "cond", "rawdisj", "call", "disj", "loop"} & vlib.goal_tags(c)),
            "assumptions": SEARCH_ASSUME},
    "C08": {"plan": plan_c08, "reasons": R_ANSWERS,
            "rule": "exhaustive: MC_Search.CommitScope (conda/condu with 1-2 clauses, heads with 0/1/several answers, "
                    "immediate or lazily produced, rests with 0/1/2 answers, nested under conde/conj; onceo); random: "
                    "conda/condu/onceo around library-relation programs; infinite heads for condu/onceo.",
            "nontrivial": lambda c: bool({"conda", "condu", "onceo"} & vlib.goal_tags(c)),
            "assumptions": SEARCH_ASSUME + ["'first answer in engine order' of a condu/onceo head is taken from the engine "
                                            "model of Search.tla (checked to be an answer of the head)"]},
    "C10": {"plan": plan_c10, "reasons": R_ANSWERS | {"group_union_differs", "user_trail_differs"},
            "rule": "random prefix / branch A / branch B / suffix from bindings, disequalities, user-trail leaves, library "
                    "relations and project; conde{A,B}, A alone, B alone (multiset union judged implementation against "
                    "implementation) and conde{B,A}, each also against the reference.",
            "nontrivial": lambda c: "conde" in vlib.goal_tags(c),
            "assumptions": SEARCH_ASSUME},
    "C11": {"plan": plan_c11, "reasons": R_ANSWERS | {"panic", "user_trail_differs"},
            "rule": "1-4 states (member / conde / loop) reach a project goal whose body uses the projected value "
                    "non-relationally (show, isnum) in one or two goals.  Non-trivial: more than one state reaches it.",
            "nontrivial": lambda c: True,
            "assumptions": SEARCH_ASSUME},
    "C12": {"plan": plan_c12, "reasons": R_ANSWERS | {"group_bags_differ"},
            "rule": "collections of 0-3 terms (ground, variables shared with the query) and 1-2 body clauses over the loop "
                    "variable; for{} next to its explicit conjunction.",
            "nontrivial": lambda c: "for" in vlib.goal_tags(c),
            "assumptions": SEARCH_ASSUME},
})


# ----------------------------------------------------------------------------- C07 / C09

def live_mc(ctx, name, scope, stepping):
    consts = {"M": "3", "K": "600", "Tag": '"%s"' % name, "StepRun": "TRUE" if stepping else "FALSE"}
    d = {"Emit": "TRUE"}
    d.update(consts)
    if ctx.get("no_mc"):
        return {"cases": []}
    r = vlib.run_mc(ctx["prop"] + "_" + name, "MC_Live", d, ["Productive", "EmitCase"],
                    {"Scope": scope, "Branches": "BranchesOf", "Labels": "LabelSet", "Defs": "SpinDefs"},
                    workers=8, properties=["Fair"] if stepping else None,
                    spec="Spec" if stepping else "SafetySpec")
    ctx["mc"].append(r)
    return r


def live_cases(ctx, res, prefix):
    out = []
    for n, c in enumerate(res["cases"]):
        need = {k: v for k, v in c["need"].items() if v > 0}
        out.append({"id": "%s-%s-%d" % (ctx["prop"], prefix, n), "kind": "program", "mode": "solver", "goal": c["goal"],
                    "take": 3 * c["n"] + 10, "budget": 20 * c["ticks"] + 1000, "need": need, "noref": True,
                    "model_ticks": c["ticks"], "after": 0,
                    "defs": {"spin": {"params": [], "locals": [], "body": [["call", "spin", []]]}}})
    return out


def plan_c07(ctx):
    r = live_mc(ctx, "fin", T(ctx, "FinScope", "FinScopeT"), True)
    add(ctx, live_cases(ctx, r, "f"))
    r = live_mc(ctx, "grow", T(ctx, "GrowScope", "GrowScopeT"), False)
    add(ctx, live_cases(ctx, r, "g"))
    # the documented examples as queries
    add(ctx, [query(ctx, "C07-doc-1", 1, [["conde", [[["never"]], [["eq", ["var", 1], ["num", 1]]]]]], take=1, fuel=6,
                    budget=5000),
              query(ctx, "C07-doc-2", 1, [["conde", [[["always"], ["eq", ["var", 1], ["num", 1]]],
                                                    [["always"], ["eq", ["var", 1], ["num", 2]]]]]], take=8, fuel=10,
                    budget=20000)])


def plan_c09(ctx):
    rng = ctx["rng"]
    # laziness: taking exactly the answers the model needs terminates before the budget
    r = live_mc(ctx, "grow", "GrowScope", False)
    for c in live_cases(ctx, r, "lazy"):
        c["take"] = (c["take"] - 10) // 3
        # only termination is judged here: WHICH answers come first is not part of C09 (a different but
        # fair interleaving would be right), so the per-branch needs of C07 are not carried over
        c.pop("need", None)
        if c["take"] > 0:
            add(ctx, [c])
    # ... also when a disjunct is a depth-first block (its steps must stay single steps)
    r = live_mc(ctx, "fin", "FinScope", True)
    for c in live_cases(ctx, r, "lazyd"):
        c["take"] = (c["take"] - 10) // 3
        c.pop("need", None)
        if c["take"] > 0 and "dfs" in vlib.goal_tags(c):
            add(ctx, [c])
    # fusedness: finite programs, four more next() calls after the first None
    for i in range(T(ctx, 150, 3000)):
        nq = rng.randint(1, 2)
        add(ctx, [query(ctx, "C09-fused-%d" % i, nq, gen.search_program(rng, nq, rng.randint(1, 5)), after=4)])
    # determinism under every forced order of re-running the stored constraints
    add(ctx, sched_sweep(ctx, T(ctx, 120, 2500), "sw", group_check="same_seq"))
    # determinism: the same query R times (round-robin over harness processes = different hash
    # seeds per run, every HashMap instance draws new keys even within one process)
    R = T(ctx, 4, 12)
    for i in range(T(ctx, 150, 2000)):
        nq = rng.randint(1, 3)
        r = rng.random()
        if r < 0.4:
            body = gen.flat_tree_program(rng, nq, rng.randint(3, 7), 2, p_neq=0.7)
        elif r < 0.6:
            # a disequality whose pairs share a variable, decided later (a result must not depend on the
            # iteration order of the constraint's own map)
            nq = 3
            x, y, z = ["var", 1], ["var", 2], ["var", 3]
            n = lambda: ["num", rng.randint(1, 2)]
            body = [["neq", ["list", [x, y]], rng.choice([["list", [z, z]], ["list", [z, ["list", [z]]]]])],
                    ["eq", x, n()], ["eq", y, rng.choice([n(), ["list", [n()]]])]]
            if rng.random() < 0.5:
                body.append(["eq", z, n()])
            rng.shuffle(body)
        else:
            body = gen.search_program(rng, nq, rng.randint(2, 6))
        g = "C09-det-%d" % i
        for j in range(R):
            c = query(ctx, "%s-%d" % (g, j), nq, body, group=g, after=2)
            if j == R - 1:
                c["gcheck"] = "same_seq"
            add(ctx, [c])


PROPS.update({
    "C07": {"plan": plan_c07, "reasons": {"unfair_starvation", "missing_answer", "invented_answer"},
            "rule": "disjunctions of 2-3 labelled branches (top level, nested, under a conjunction, inside loop) whose "
                    "prefixes are drawn from {nothing, two-answer goal, always, never, fresh{always}} (finite-state: "
                    "liveness property Fair under weak fairness) and additionally loop-producers (Productive, bounded). "
                    "The real conde must deliver need[b] answers of every branch within 20x the model's ticks + 1000.",
            "nontrivial": lambda c: bool({"always", "never", "loop"} & vlib.goal_tags(c)),
            "assumptions": SEARCH_ASSUME + ["need[b] is a lower bound of what branch b yields alone (reference fuel 8, M = 3)",
                                            "step budget = 20 x model ticks + 1000 (hook verif::tick)"]},
    "C09": {"plan": plan_c09, "reasons": {"budget_exhausted", "unfair_starvation", "not_fused", "group_sequences_differ",
                                          "group_outcomes_differ", "did_not_terminate"},
            "rule": "laziness: take n on the MC_Live.GrowScope producers ends before the budget; fusedness: four extra "
                    "next() calls after the first None on finite programs; determinism: the same query run R times in "
                    "different harness processes (hash seeds) must give the same answer sequence up to renaming and "
                    "constraint-set order.  FD programs under forced constraint schedules are added by the FD plans.",
            "nontrivial": lambda c: True,
            "assumptions": SEARCH_ASSUME + ["hash-order sites that cannot be forced are covered by repetition (DESIGN 2.2)"]},
})


# ----------------------------------------------------------------------------- C18

EXT_SAFE = {"intersect", "contains", "min", "max", "is_singleton", "singleton_value"}


def plan_c18(ctx):
    d = {"Emit": "TRUE", "Full": T(ctx, "FALSE", "TRUE")}
    r = vlib.run_mc("C18_fdom", "MC_FDom", d, ["Laws", "EmitCase"], None, workers=12)
    ctx["mc"].append(r)
    n = 0
    for c in r["cases"]:
        base = {"kind": "domop", "op": c["op"], "a": c["a"], "arg": c["arg"]}
        if c["b"] != ["none"]:
            base["b"] = c["b"]
        n += 1
        add(ctx, [dict(base, id="C18-i%d" % n, emb="id")])
        # extreme isize bounds: the monotone embedding whose end points are isize::MIN / MAX,
        # for the operations that do not enumerate an interval element by element
        doms = [c["a"]] + ([c["b"]] if c["b"] != ["none"] else [])
        mixed = any(x[0] == "itv" for x in doms) and any(x[0] == "vec" for x in doms)
        if c["op"] in EXT_SAFE and abs(c["arg"]) <= 3:   # thresholds -4 / 4 have no image of their own
            add(ctx, [dict(base, id="C18-e%d" % n, emb="ext")])


PROPS.update({
    "C18": {"plan": plan_c18, "reasons": {"domain_op_wrong", "panic"},
            "rule": "every domain of the family (all 28 intervals over -3..3, all 31 sorted subsets of -2..2, every vector "
                    "of length <= 3 over {-1,0,1} before sorting) under every unary operation, every threshold operation "
                    "with thresholds -4..4, and every binary operation with every (quick: light) second operand; the "
                    "non-enumerating operations also under the embedding with isize::MIN / isize::MAX end points.  "
                    "Non-trivial: every case (each is one distinct operation instance).",
            "nontrivial": lambda c: True,
            "assumptions": ["window -3..3; extreme bounds only through a monotone embedding and only for operations that do "
                            "not iterate an interval (iterating isize::MIN..=isize::MAX is a performance matter, out of scope)",
                            "TLC, Json/IOUtils, harness/src/domops.rs projection (Interval/Sparse -> window coordinates)"]},
})


# ----------------------------------------------------------------------------- CLP(FD): C16 C17 C04

FD_INVS = ["Sound", "AcyclicInv", "FdStoreWf", "UserBalance", "LabelExact", "EmitCase"]


def fd_mc(ctx, name, consts):
    c = {"K": "4", "Sched": "{0, 1}", "Tag": '"%s"' % name, "NVars": "2", "MaxCons": "1", "MaxEq": "1", "Rich": "FALSE"}
    c.update(consts)
    return mc(ctx, name, "MC_FD", c, FD_INVS, {"GoalsAfter": "FdGoalsAfter", "Vals": "FdVals"}, workers=14, timeout=7000)


def fd_cases_from_mc(ctx, res, prefix, nvars, stride=1, limit=25000):
    """MC_FD behaviours -> query programs (when every variable got a domain) and FD store cases.
    At most `limit` distinct behaviours are used (every k-th one)."""
    uniq = len(set(json_key(c["ops"]) for c in res["cases"]))
    stride = max(stride, -(-uniq // limit))
    if stride > 1:
        ctx["notes"].append("%s: every %d-th of %d distinct behaviours executed" % (prefix, stride, uniq))
    out, seen = [], set()
    for n, c in enumerate(res["cases"]):
        key = json_key(c["ops"])
        if key in seen:
            continue
        seen.add(key)
        if len(seen) % stride:
            continue
        vs = list(range(1, nvars + 1))
        dommed = set()
        for op in c["ops"]:
            if op[0] == "dom":
                dommed |= gen.vars_in(op[1])
        out.append({"id": "%s-%s-s%d" % (ctx["prop"], prefix, n), "kind": "store", "fd": True, "vars": vs,
                    "win": [-3, 3], "k": 0, "ops": c["ops"]})
        if gen.vars_in(c["ops"]) <= dommed:
            out.append({"id": "%s-%s-q%d" % (ctx["prop"], prefix, n), "kind": "program", "mode": "query",
                        "qvars": sorted(gen.vars_in(c["ops"])), "body": c["ops"], "after": 1})
    return out


def json_key(x):
    import json
    return json.dumps(x, sort_keys=True)


def fd_random(ctx, n, prefix, scheds=(0,)):
    rng = ctx["rng"]
    out = []
    for i in range(n):
        nv = rng.randint(1, 4)
        lo, hi = rng.choice([(-3, 3), (0, 5), (-6, 6), (1, 4)])
        body = gen.fd_program(rng, nv, rng.randint(1, 4), lo, hi)
        for k in scheds:
            out.append({"id": "%s-%s-%d-k%d" % (ctx["prop"], prefix, i, k), "kind": "program", "mode": "query",
                        "qvars": list(range(1, nv + 1)), "body": body, "sched": k, "after": 1})
    return out


def plan_fd(ctx):
    if ctx["tier"] == "quick":
        r = fd_mc(ctx, "fd2", {})
        add(ctx, fd_cases_from_mc(ctx, r, "m", 2, stride=16))
    else:
        r = fd_mc(ctx, "fd2", {"Rich": "TRUE", "Sched": "{0, 1, 5}"})
        add(ctx, fd_cases_from_mc(ctx, r, "m", 2))
        r = fd_mc(ctx, "fd2c", {"MaxCons": "2", "K": "5"})
        add(ctx, fd_cases_from_mc(ctx, r, "mc", 2, stride=3))
        r = fd_mc(ctx, "fd3", {"NVars": "3", "K": "4", "MaxEq": "0", "Sched": "{0}"})
        add(ctx, fd_cases_from_mc(ctx, r, "m3", 3, stride=3))
    add(ctx, fd_random(ctx, T(ctx, 500, 8000), "r", scheds=(0, 1, 2)))
    rng = ctx["rng"]
    for i in range(T(ctx, 800, 12000)):
        body, nv = gen.fd_collapse_program(rng)
        add(ctx, [{"id": "%s-col-%d" % (ctx["prop"], i), "kind": "program", "mode": "query",
                   "qvars": list(range(1, nv + 1)), "body": body, "after": 1}])
    # products over factor domains that do not start at 0 / 1 (quotient bounds round differently there)
    for i in range(T(ctx, 120, 2400)):
        xl = rng.randint(1, 3); xh = rng.randint(xl + 1, 9)
        yl = rng.randint(2, 3); yh = rng.randint(yl + 1, 5)
        goals = [["dom", ["var", 1], ["itv", xl, xh]], ["dom", ["var", 2], ["itv", yl, yh]]]
        if rng.random() < 0.5:
            z = ["num", rng.choice([6, 8, 9, 10, 12, 15, 16, 18, 20])]
            qv = [1, 2]
        else:
            zl = rng.randint(4, 12)
            goals.append(["dom", ["var", 3], ["itv", zl, zl + rng.randint(0, 3)]])
            z = ["var", 3]
            qv = [1, 2, 3]
        ops = [["var", 1], ["var", 2]]
        if rng.random() < 0.3:
            ops.reverse()
        goals.append(["timesfd"] + ops + [z])
        rng.shuffle(goals)
        add(ctx, [{"id": "%s-tm-%d" % (ctx["prop"], i), "kind": "program", "mode": "query", "qvars": qv, "body": goals, "after": 1}])
    # distinctfd over 3-4 elements whose values arrive in any order: posted before or after the domains, elements
    # aliased, several elements bound by one unification, constants in the list
    for i in range(T(ctx, 150, 3000)):
        n = rng.randint(3, 4)
        vs = list(range(1, n + 1))
        lo, hi = 1, rng.randint(3, 4)
        elems = [["var", v] for v in vs]
        if rng.random() < 0.3:
            elems.insert(rng.randint(0, n), ["num", rng.randint(lo, hi)])
        goals = [["dom", ["list", [["var", v] for v in vs]], ["itv", lo, hi]], ["distinctfd", ["list", elems]]]
        for _ in range(rng.randint(1, 2)):
            r = rng.random()
            if r < 0.35:
                a, b = rng.sample(vs, 2)
                goals.append(["eq", ["var", a], ["var", b]])
            elif r < 0.7:
                k = rng.randint(2, n)
                sel = rng.sample(vs, k)
                goals.append(["eq", ["list", [["var", v] for v in sel]], ["list", [["num", rng.randint(lo, hi)] for _ in sel]]])
            else:
                goals.append(["eq", ["var", rng.choice(vs)], ["num", rng.randint(lo, hi)]])
        rng.shuffle(goals)
        add(ctx, [{"id": "%s-dst-%d" % (ctx["prop"], i), "kind": "program", "mode": "query", "qvars": vs, "body": goals, "after": 1}])
    # the answer is a STRUCTURE over the domain variables (rows of a table, nested lists, compounds inside lists):
    # labelling has to reach every variable of it, each solution exactly once
    for i in range(T(ctx, 150, 3000)):
        nv = rng.randint(2, 3)
        vs = list(range(1, nv + 1))
        lo, hi = rng.choice([(0, 1), (1, 3), (-1, 1), (1, 2)])
        body = [["dom", ["list", [["var", v] for v in vs]], ["itv", lo, hi]]]
        body += [gen.fd_constraint(rng, vs, lo, hi) for _ in range(rng.randint(0, 2))]
        x, y, z = ["var", vs[0]], ["var", vs[1]], ["var", vs[-1]]
        shape = rng.choice([
            ["list", [["list", [x, y]], z]], ["list", [["list", [x]], ["list", [y]], z]],
            ["list", [["cmp", "Pair", [x, y]], z]], ["list", [["num", 7], ["list", [x, ["list", [y]]]], z]],
            ["list", [["list", [["num", 0], x]], ["list", [["num", 1], y]]] + ([z] if nv == 3 else [])],
            ["cmp", "Pair", [["list", [x, ["list", [y]]]], z]], ["list", [["ilist", [x, y]], z]]])
        q = nv + 1
        body.append(["eq", ["var", q], shape])
        rng.shuffle(body)
        add(ctx, [{"id": "%s-sh-%d" % (ctx["prop"], i), "kind": "program", "mode": "query", "qvars": [q], "vars": vs,
                   "body": body, "after": 1}])
    for i in range(T(ctx, 150, 3000)):
        goals, nq, aliases = gen.fd_alias_program(rng)
        rng.shuffle(goals)
        add(ctx, [{"id": "%s-al-%d" % (ctx["prop"], i), "kind": "program", "mode": "query", "qvars": list(range(1, nq + 1)),
                   "body": [["fresh", aliases, goals]], "after": 1}])
    add(ctx, examples.all_examples(ctx["prop"], ["nqueens"], thorough=ctx["tier"] == "thorough"))   # /repo/examples/n-queens.rs
    # the labelling pipeline step by step (programs without the arithmetic propagators, whose strength the
    # specification deliberately does not copy)
    with_engine_records(ctx, every=T(ctx, 2, 10), extra=FD_ENGINE_TAGS)


FD_ASSUME = ["integer window -3..3 (flow A) / -6..6 (random); <= 3 variables exhaustive, <= 4 random",
             "every FD operand gets a domain before labelling (well-formed programs)",
             "TLC, Json/IOUtils, harness projectors; brute-force solutions are TLA+ set comprehensions (Store.SatGoal)"]
FD_RULE = ("exhaustive: every order of posting <= 1 domain per variable (interval and sparse, positive, negative, mixed "
           "sign, singleton), <= MaxCons constraints of every kind with every operand aliasing pattern over the variables "
           "and constants, <= 1 equation (incl. a list unification binding two FD variables at once), under schedule "
           "indices Sched (MC_FD); each behaviour is executed step by step on State (propagation soundness per step) and "
           "as a query (answers against brute force); random: <= 4 variables, <= 4 constraints, windows up to -6..6, under "
           "forced constraint schedules.  Non-trivial: the program has at least one FD constraint.")
FD_TAGS = {"ltefd", "ltfd", "neqfd", "plusfd", "minusfd", "timesfd", "distinctfd"}
PROPS.update({
    "C16": {"plan": plan_fd, "reasons": {"invented_answer", "answer_not_reified"},
            "rule": FD_RULE, "nontrivial": lambda c: bool(FD_TAGS & vlib.goal_tags(c)), "assumptions": FD_ASSUME},
    "C17": {"plan": plan_fd, "reasons": {"missing_answer", "wrong_multiplicity", "fd_solution_lost", "fd_wrong_failure"},
            "rule": FD_RULE, "nontrivial": lambda c: bool(FD_TAGS & vlib.goal_tags(c)), "assumptions": FD_ASSUME},
})


# ----------------------------------------------------------------------------- CLP(Z): C19

def z_mc(ctx, name, consts):
    c = {"K": "2", "Sched": "{0}", "Tag": '"%s"' % name, "MaxCons": "1", "MaxEq": "1", "Rich": "FALSE"}
    c.update(consts)
    return mc(ctx, name, "MC_Z", c, ["Den", "AcyclicInv", "UserBalance", "ZResolved", "EmitCase"],
              {"GoalsAfter": "ZGoalsAfter", "Vals": "ZVals"}, workers=14, timeout=7000)


def plan_c19(ctx):
    if ctx["tier"] == "quick":
        r = z_mc(ctx, "z", {})
        stride = 1
    else:
        r = z_mc(ctx, "z", {"K": "3", "MaxEq": "2", "Rich": "TRUE"})
        stride = 2
    seen = set()
    for n, c in enumerate(r["cases"]):
        key = json_key(c["ops"])
        if key in seen:
            continue
        seen.add(key)
        if len(seen) % stride:
            continue
        add(ctx, [{"id": "C19-m-s%d" % n, "kind": "store", "vars": [1, 2, 3], "k": 0, "ops": c["ops"]}])
        if n % 3 == 0:
            add(ctx, [{"id": "C19-m-q%d" % n, "kind": "program", "mode": "query", "qvars": [1, 2, 3],
                       "body": c["ops"], "after": 1}])
    rng = ctx["rng"]
    for i in range(T(ctx, 600, 10000)):
        nv = rng.randint(1, 4)
        vs = list(range(1, nv + 1))
        o = lambda: ["var", rng.choice(vs)] if rng.random() < 0.65 else ["num", rng.randint(-4, 4)]
        goals = [[rng.choice(["plusz", "timesz"]), o(), o(), o()] for _ in range(rng.randint(1, 3))]
        for _ in range(rng.randint(0, 3)):
            goals.append(["eq", ["var", rng.choice(vs)], ["num", rng.randint(-4, 4)]] if rng.random() < 0.8
                         else ["eq", ["var", rng.choice(vs)], ["var", rng.choice(vs)]])
        rng.shuffle(goals)
        add(ctx, [{"id": "C19-r-s%d" % i, "kind": "store", "vars": vs, "k": 0, "ops": goals},
                  {"id": "C19-r-q%d" % i, "kind": "program", "mode": "query", "qvars": vs, "body": goals, "after": 1}])


PROPS.update({
    "C19": {"plan": plan_c19, "reasons": R_STORE | R_ANSWERS | {"z_constraints_differ", "panic"},
            "rule": "exhaustive: plusz/timesz with every operand pattern over three variables and small integers "
                    "(aliasing, zero multipliers, non-divisible products), one (thorough: two) binding(s) v == n or "
                    "X == Y in every order (MC_Z); each behaviour step by step on State (success flag, substitution, set of "
                    "suspended constraints) and as a query; random chains of <= 3 constraints and <= 3 bindings.  "
                    "Non-trivial: every case.",
            "nontrivial": lambda c: True,
            "assumptions": ["operands and results within -4..6 (flow A window); isize overflow out of scope",
                            "TLC, Json/IOUtils, harness projectors"]},
})


# ----------------------------------------------------------------------------- C04

def permute_program(goals, rng):
    """A random permutation of every conjunction (goal list) and every disjunction (clause list)."""
    out = []
    for g in goals:
        if g[0] in ("conde", "cond"):
            cls = [permute_program(cl, rng) for cl in g[1]]
            rng.shuffle(cls)
            out.append([g[0], cls])
        elif g[0] == "fresh":
            out.append(["fresh", g[1], permute_program(g[2], rng)])
        else:
            out.append(g)
    rng.shuffle(out)
    return out


def fd_nested_program(rng, nv, lo, hi):
    vs = list(range(1, nv + 1))
    goals = [["dom", ["var", v], gen.fd_domain(rng, lo, hi)] for v in vs]
    goals += [gen.fd_constraint(rng, vs, lo, hi) for _ in range(rng.randint(1, 3))]
    ncl = rng.randint(2, 3)
    cls = []
    for _ in range(ncl):
        cl = [gen.fd_constraint(rng, vs, lo, hi) if rng.random() < 0.6 else ["eq", ["var", rng.choice(vs)], ["num", rng.randint(lo, hi)]]
              for _ in range(rng.randint(1, 2))]
        cls.append(cl)
    goals.append(["conde", cls])
    return goals


def plan_c04(ctx):
    rng = ctx["rng"]
    # the design half: order-freedom of the store is Den / LabelExact over every posting order
    mc(ctx, "tree", "MC_Tree", {"K": "3", "Sched": "{0}", "Tag": '"tree"', "Emit": "FALSE"}, TREE_INVS,
       {"GoalsAfter": "TreeGoalsAfter", "Vals": "TreeVals"})
    fd_mc(ctx, "fd2", {"Emit": "FALSE", "Sched": "{0}"})
    P = T(ctx, 6, 12)
    for i in range(T(ctx, 220, 4000)):
        r = rng.random()
        if r < 0.3:
            nv = rng.randint(1, 4)
            base = gen.flat_tree_program(rng, nv, rng.randint(2, 5), 2)
        elif r < 0.55:
            nv = rng.randint(1, 3)
            base = gen.nested_tree_program(rng, nv, 2, rng.randint(3, 7))
        elif r < 0.8:
            nv = rng.randint(1, 3)
            lo, hi = rng.choice([(-3, 3), (0, 4), (-5, 5)])
            base = gen.fd_program(rng, nv, rng.randint(1, 3), lo, hi)
        else:
            nv = rng.randint(2, 3)
            base = fd_nested_program(rng, nv, -3, 3)
        if r >= 0.55 and rng.random() < 0.5:
            # two domains for one variable (interval and sparse): their intersection must not
            # depend on which one is posted first, directly or through an equation
            v = rng.randint(1, nv)
            extra = [["dom", ["var", v], ["itv", lo if r < 0.8 else -3, (hi if r < 0.8 else 3)]],
                     ["dom", ["var", v], ["vec", sorted(set(rng.randint(lo if r < 0.8 else -3, hi if r < 0.8 else 3) for _ in range(3)))]]]
            if nv >= 2 and rng.random() < 0.5:
                w = rng.choice([x for x in range(1, nv + 1) if x != v])
                extra[1][1] = ["var", w]
                extra.append(["eq", ["var", v], ["var", w]])
            base = [g0 for g0 in base if not (g0[0] == "dom" and g0[1] == ["var", v])] + extra
        g = "C04-g%d" % i
        variants = [base]
        if len(base) <= 3 and all(x[0] not in ("conde", "fresh") for x in base):
            import itertools
            variants = [list(p) for p in itertools.permutations(base)]
        else:
            variants += [permute_program(base, rng) for _ in range(P - 1)]
        for j, body in enumerate(variants):
            c = query(ctx, "%s-p%d" % (g, j), nv, body, group=g, after=1)
            if j == len(variants) - 1:
                c["gcheck"] = "same_bag"
            add(ctx, [c])
    # a disequality whose pairs SHARE a variable, the equalities that decide it, and a later choice for the shared
    # variable: every order of the four goals
    for i in range(T(ctx, 8, 120)):
        x, y, z = ["var", 1], ["var", 2], ["var", 3]
        a, b = rng.sample([1, 2, 3], 2)
        wrapv = (lambda n: ["num", n]) if rng.random() < 0.6 else (lambda n: ["list", [["num", n]]])
        goals = [["neq", ["list", [x, y]], rng.choice([["list", [z, z]], ["list", [z, z]], ["list", [z, ["list", [z]]]]])],
                 ["eq", x, wrapv(a)], ["eq", y, wrapv(b)],
                 ["conde", [[["eq", z, wrapv(a)]], [["eq", z, wrapv(b)]]]]]
        g = "C04-sv%d" % i
        orders = [list(p) for p in itertools.permutations(goals)]
        for j, body in enumerate(orders):
            c = query(ctx, "%s-p%d" % (g, j), 3, body, group=g, after=1)
            if j == len(orders) - 1:
                c["gcheck"] = "same_bag"
            add(ctx, [c])
    # a value reaching a constrained variable through an alias, the domain arriving at any time:
    # every order of the four goals (a sample of the orders of the seven goals with two variables)
    for i in range(T(ctx, 14, 250)):
        goals, nq, aliases = gen.fd_alias_program(rng)
        if len(goals) <= 4:
            orders = [list(p) for p in itertools.permutations(goals)]
        else:
            orders = [goals] + [rng.sample(goals, len(goals)) for _ in range(T(ctx, 11, 23))]
        g = "C04-al%d" % i
        for j, body in enumerate(orders):
            c = query(ctx, "%s-p%d" % (g, j), nq, [["fresh", aliases, body]], group=g, after=1)
            if j == len(orders) - 1:
                c["gcheck"] = "same_bag"
            add(ctx, [c])


PROPS.update({
    "C04": {"plan": plan_c04, "reasons": R_ANSWERS | {"group_bags_differ", "group_outcomes_differ"},
            "rule": "terminating programs of equalities, disequalities, FD constraints, fresh, conjunction and disjunction; "
                    "all permutations of conjunctions with <= 3 goals, otherwise 6 (thorough: 12) random permutations of "
                    "every conjunction and every disjunction; every variant against the reference and all variants of a "
                    "program against each other (multisets).  Flow A: Den / LabelExact of MC_Tree and MC_FD hold for every "
                    "posting order.  Non-trivial: the program has >= 2 goals.",
            "nontrivial": lambda c: len(c.get("body", [])) >= 2,
            "assumptions": FD_ASSUME + ["answers compared as multisets of reified answers up to renaming and constraint-set "
                                        "equivalence (ground-instance sets coincide with that for tree constraints)"]},
})


# ----------------------------------------------------------------------------- C24

ALL_RELS = '{"member", "member1", "append", "rember", "permute", "distinct", "cons", "first", "rest", "empty"}'


def plan_c24(ctx):
    r = vlib.run_mc("C24_lib", "MC_Lib", {"Emit": "TRUE", "Slots": "32", "Rels": ALL_RELS}, ["LibCorrect", "EmitCase"],
                    None, workers=12)
    ctx["mc"].append(r)
    for n, c in enumerate(r["cases"]):
        qv = sorted(gen.vars_in(c["args"]))
        add(ctx, [{"id": "C24-m-%d" % n, "kind": "program", "mode": "query", "lib": c["rel"], "args": c["args"],
                   "qvars": qv, "body": [["call", c["rel"], c["args"]]], "take": 20, "budget": 400000, "after": 1,
                   "final_probe": False}])
    # random: longer lists, repeated elements, more variables
    rng = ctx["rng"]
    for i in range(T(ctx, 300, 6000)):
        rel = rng.choice(["member", "member1", "append", "rember", "permute", "distinct", "cons", "first", "rest", "empty"])
        el = lambda: ["num", rng.choice([1, 2])] if rng.random() < 0.75 else ["var", rng.choice([1, 2, 3])]
        lst = lambda n=3: (["list", [el() for _ in range(rng.randint(0, n))]] if rng.random() < 0.85 else ["var", rng.choice([1, 2, 3])])
        if rel in ("member", "member1"):
            args = [el(), lst()]
        elif rel == "append":
            args = [lst(2), lst(2), lst(3)]
        elif rel == "rember":
            args = [el(), lst(), lst()]
        elif rel == "permute":
            args = [["list", [el() for _ in range(rng.randint(0, 3))]], lst()]
        elif rel == "distinct":
            args = [["list", [el() for _ in range(rng.randint(0, 3))]]]
        elif rel == "cons":
            args = [el(), lst(2), lst(3)]
        elif rel in ("first", "rest"):
            args = [lst(), el() if rel == "first" else lst(2)]
        else:
            args = [lst(1)]
        qv = sorted(gen.vars_in(args))
        add(ctx, [{"id": "C24-r-%d" % i, "kind": "program", "mode": "query", "lib": rel, "args": args, "qvars": qv,
                   "body": [["call", rel, args]], "take": 20, "budget": 400000, "after": 1, "final_probe": False}])


PROPS.update({
    "C24": {"plan": plan_c24, "reasons": {"lib_wrong_answer", "lib_duplicate_answer", "lib_missing_answer", "panic"},
            "rule": "exhaustive: every mode instance of MC_Lib (each argument ground / partially ground / a variable, lists "
                    "of length <= 3 over {1,2} with repeats); random: longer and more entangled arguments.  For every "
                    "ground valuation of the variables over {1, 2, fresh atom, lists of them up to length 3} whose list "
                    "positions hold proper lists, the number of answers having it as an instance is compared with the "
                    "sequence-level relation (member: one per matching position; permute: membership only).  Infinite "
                    "modes: the first 20 answers, 'no wrong / no duplicate answer' only.",
            "nontrivial": lambda c: len(gen.vars_in(c.get("args", []))) > 0,
            "assumptions": ["valuation universe of 3 atoms and lists of length <= 3; tuples whose list positions are not "
                            "proper lists are not judged", "TLC, Json/IOUtils, harness projectors"]},
})


# ----------------------------------------------------------------------------- C20

def encode_cmp(x):
    """Compound -> tagged list twin: T(a, ..) becomes ["s:T", a, ..]."""
    if isinstance(x, list):
        if len(x) == 3 and x[0] == "cmp":
            return ["list", [["sym", "s:" + x[1]]] + [encode_cmp(a) for a in x[2]]]
        return [encode_cmp(y) for y in x]
    return x


def twin_safe(x):
    """The tagged-list twin of a compound program is faithful only if no list PATTERN of the program can unify
    with an encoded compound ["s:T", a, ..]: no improper lists, and no list that starts with a variable."""
    if isinstance(x, list):
        if x and x[0] in ("cons", "ilist"):
            return False
        if len(x) == 2 and x[0] == "list" and isinstance(x[1], list) and x[1] and x[1][0][0] in ("var", "any"):
            return False
        return all(twin_safe(y) for y in x)
    return True


def plan_c20(ctx):
    r = mc(ctx, "cmp", "MC_Unify", {"K": "1", "Sched": "{0}", "Tag": '"ucmp"', "WithPrior": "FALSE"},
           ["Den", "AcyclicInv", "UnifiedIdentical", "UserBalance", "ExtensionExact", "EmitCase"],
           {"GoalsAfter": "CGoalsAfter", "Vals": "CVals"})
    cases = store_cases(ctx, r, "uc")
    add(ctx, cases[::T(ctx, 4, 1)])
    rng = ctx["rng"]
    for i in range(T(ctx, 500, 10000)):
        nv = rng.randint(1, 4)
        tg = gen.TermGen(rng, range(1, nv + 1), compounds=True, wrap=True)
        goals = []
        for _ in range(rng.randint(2, 5)):
            g = gen.tree_goal(tg, rng.randint(1, 3), p_neq=0.35)
            goals.append(g)
        if not any("cmp" in str(g) for g in goals):
            goals.append(["eq", ["var", 1], tg.term(2)])
        g = "C20-t%d" % i
        if twin_safe(goals):
            add(ctx, [query(ctx, g + "-c", nv, goals, group=g, enc=True),
                      query(ctx, g + "-l", nv, encode_cmp(goals), group=g, gcheck="same_bag")])
        else:
            # the twin would not be faithful: the program is judged against the reference semantics only
            add(ctx, [query(ctx, g + "-c", nv, goals)])
    # a struct with an OPTIONAL field (Slot(t, Option)): Some(..) against None in either operand order, directly
    # and through variables, under == and !=
    for i in range(T(ctx, 150, 3000)):
        vs = [1, 2, 3]
        a = lambda: rng.choice([["var", rng.choice(vs)], ["num", rng.randint(1, 2)], ["num", 1]])
        slot = lambda: ["cmp", "Slot", [a(), rng.choice([["cmp", "None", []], ["cmp", "Some", [a()]], ["cmp", "Some", [a()]]])]]
        goals = []
        for _ in range(rng.randint(1, 3)):
            r = rng.random()
            l, rr = rng.choice([(slot(), slot()), (["var", rng.choice(vs)], slot()), (slot(), ["var", rng.choice(vs)])])
            goals.append(["eq" if r < 0.6 else "neq", l, rr])
        if rng.random() < 0.5:
            goals.append(["eq", ["var", rng.choice(vs)], ["num", rng.randint(1, 2)]])
        add(ctx, [{"id": "C20-sl-s%d" % i, "kind": "store", "vars": vs, "k": 0, "ops": goals},
                  query(ctx, "C20-sl-q%d" % i, 3, goals)])
    # FD labelling through compound fields, and a compound against a list / literal
    for i in range(T(ctx, 250, 5000)):
        nv = rng.randint(2, 3)
        vs = list(range(1, nv + 1))
        lo, hi = rng.choice([(0, 1), (1, 3), (-1, 1)])
        body = [["dom", ["list", [["var", v] for v in vs]], ["itv", lo, hi]]]
        body += [gen.fd_constraint(rng, vs, lo, hi) for _ in range(rng.randint(0, 2))]
        ty = rng.choice(["Pair", "Node", "Tuple", "Tree", "Box1"])
        k = gen.CMP_ARITY[ty]
        args = [["var", rng.choice(vs)] if rng.random() < 0.8 else ["num", rng.randint(lo, hi)] for _ in range(k)]
        if rng.random() < 0.4 and k >= 2:
            args[0] = ["list", [["var", vs[0]], ["cmp", "Box1", [["var", vs[-1]]]]]]
        q = nv + 1
        body.append(["eq", ["var", q], ["cmp", ty, args]])
        rng.shuffle(body)
        g = "C20-f%d" % i
        add(ctx, [{"id": g + "-c", "kind": "program", "mode": "query", "qvars": [q], "vars": vs, "body": body,
                   "after": 1, "group": g, "enc": True},
                  {"id": g + "-l", "kind": "program", "mode": "query", "qvars": [q], "vars": vs,
                   "body": encode_cmp(body), "after": 1, "group": g, "gcheck": "same_bag"}])


PROPS.update({
    "C20": {"plan": plan_c20, "reasons": R_STORE | R_ANSWERS | R_REIFY | {"group_bags_differ", "group_outcomes_differ", "panic"},
            "rule": "exhaustive: every ordered pair of the compound universe of MC_Unify (Pair, Box1, Tuple, nested, mixed "
                    "with lists) unified on State; random: eq/neq programs over Pair, Box1, Node{l,r}, Tree, Rust tuples and "
                    "Option (Some(x)), each next to its tagged-list twin (implementation against implementation, and both "
                    "against the reference); FD programs whose query variable is a compound of FD variables.  "
                    "Non-trivial: the case mentions a compound.",
            "nontrivial": lambda c: "cmp" in vlib.goal_tags(c),
            "assumptions": ["compound family of the harness (harness/src/build.rs): Pair, Box1, Node, Tree, (a,b), Option",
                            "TLC, Json/IOUtils, harness projectors"]},
})


# ----------------------------------------------------------------------------- C21

def plan_c21(ctx):
    r = vlib.run_mc("C21_lterm", "MC_LTerm", {"Emit": "TRUE", "Slots": "32"}, ["Laws", "EmitCase"], None, workers=12)
    ctx["mc"].append(r)
    for n, c in enumerate(r["cases"]):
        case = {"id": "C21-m-%d" % n, "kind": "termop", "op": c["op"], "t": c["t"], "u": c["u"], "xs": c["xs"], "i": c["i"],
                "vars": [1, 2]}
        if case["t"] == ["none"]:
            case["t"] = ["nil"]
            case["tnone"] = True
        add(ctx, [case])
    # random deeper terms: equality / hash / iteration / display on terms of depth <= 4
    rng = ctx["rng"]
    for i in range(T(ctx, 1500, 30000)):
        tg = gen.TermGen(rng, [1, 2], compounds=True)
        tg2 = gen.TermGen(rng, [1, 2], compounds=False, syms=False)
        t = tg.term(rng.randint(0, 4))
        r0 = rng.random()
        if r0 < 0.5:
            u = t if rng.random() < 0.3 else tg.term(rng.randint(0, 4))
            add(ctx, [{"id": "C21-r-%d" % i, "kind": "termop", "op": "eq", "t": t, "u": u, "xs": [], "i": 0, "vars": [1, 2]}])
        else:
            op = rng.choice(["iter", "head", "tail", "is_list", "is_empty", "is_improper", "contains", "display", "extend",
                             "iter_mut_set"])
            tt = tg2.term(rng.randint(0, 3)) if op == "display" else t
            xs = [tg.atom()] if op in ("contains", "iter_mut_set") else ([tg.atom() for _ in range(rng.randint(0, 2))] if op == "extend" else [])
            if op == "extend":
                tt = ["list", [tg.term(1) for _ in range(rng.randint(0, 3))]]
            add(ctx, [{"id": "C21-r-%d" % i, "kind": "termop", "op": op, "t": tt, "u": ["none"], "xs": xs, "i": 0,
                       "vars": [1, 2]}])


PROPS.update({
    "C21": {"plan": plan_c21, "reasons": {"term_eq_wrong", "term_eq_not_reflexive", "equal_terms_hash_differently",
                                          "term_op_wrong", "panic"},
            "rule": "exhaustive: every pair of the MC_LTerm universe (literals of all four kinds incl. 1 / \"1\" / '1', two "
                    "variables, proper and improper lists, nested lists, a compound) under ==, and every list operation on "
                    "every term / element sequence of the scope; random: terms of depth <= 4.  The harness asserts only the "
                    "hash law (equal => same DefaultHasher value and HashMap lookup); everything else is judged by TLC.  "
                    "Non-trivial: every case.",
            "nontrivial": lambda c: True,
            "assumptions": ["extend/index on improper lists or out of range are outside the scope (they panic by contract)",
                            "TLC, Json/IOUtils, harness projectors"]},
})



# ----------------------------------------------------------------------------- C23

def plan_c23(ctx):
    """Every generator of the framework, panic accounting only (random parts; the TLC-enumerated parts are covered by
    the individual checks, which all treat a panic as an observation)."""
    ctx["no_mc"] = True
    real = ctx["prop"]
    for pid in ["C01", "C02", "C03", "C04", "C05", "C06", "C08", "C10", "C11", "C12", "C16", "C19", "C20"]:
        sub = {"prop": pid, "tier": ctx["tier"], "seed": ctx["seed"], "rng": ctx["rng"], "mc": [], "cases": [],
               "notes": [], "no_mc": True}
        PROPS[pid]["plan"](sub)
        for c in sub["cases"]:
            c["id"] = "C23:" + c["id"]
            if "group" in c:
                c["group"] = "C23:" + c["group"]
        # quick: every second case; thorough: at most ~20000 cases per generator (the thorough plans of the
        # other checks together are several million cases - their own checks run them, panics included)
        step = max(1, len(sub["cases"]) // 20000) if ctx["tier"] == "thorough" else 2
        keep, i, ngroups = [], 0, 0
        # keep whole groups together
        while i < len(sub["cases"]):
            j = i + 1
            while j < len(sub["cases"]) and sub["cases"][j].get("group") is not None and sub["cases"][j].get("group") == sub["cases"][i].get("group"):
                j += 1
            if step == 1 or (ctx["tier"] != "thorough" and (len(keep) + i) % step == 0) \
                    or (ctx["tier"] == "thorough" and ngroups % step == 0):
                keep.extend(sub["cases"][i:j])
            ngroups += 1
            i = j
        add(ctx, keep)
    ctx["prop"] = real
    add(ctx, examples.all_examples("C23"))     # the repository's example programs
    # arithmetic edge cases (zero factors and products, operands bound later): divisions must not trap
    rng = ctx["rng"]
    k = 0
    for rel in ("timesz", "plusz"):
        for a in (["var", 1], ["num", 0], ["num", 2]):
            for b in (["var", 2], ["num", 0], ["num", -3]):
                for c in (["var", 3], ["num", 0], ["num", 6]):
                    goals = [[rel, a, b, c]]
                    late = [["eq", ["var", v], ["num", rng.choice([0, 0, 2, -3])]] for v in (1, 2, 3) if rng.random() < 0.5]
                    for order in ([goals[0]] + late, late + [goals[0]]):
                        k += 1
                        add(ctx, [{"id": "C23-z-s%d" % k, "kind": "store", "vars": [1, 2, 3], "k": 0, "ops": order},
                                  {"id": "C23-z-q%d" % k, "kind": "program", "mode": "query", "qvars": [1, 2, 3], "body": order, "after": 1}])
    # library relations and term/domain operations
    rng = ctx["rng"]
    sub = {"prop": "C24", "tier": ctx["tier"], "seed": ctx["seed"], "rng": rng, "mc": [], "cases": [], "notes": []}
    for i in range(T(ctx, 200, 3000)):
        rel = rng.choice(["member", "member1", "append", "rember", "permute", "distinct", "cons", "first", "rest", "empty"])
        tg = gen.TermGen(rng, [1, 2, 3], compounds=False, syms=False, nums=[1, 2])
        n = {"member": 2, "member1": 2, "append": 3, "rember": 3, "permute": 2, "distinct": 1, "cons": 3, "first": 2,
             "rest": 2, "empty": 1}[rel]
        args = [gen.small_list(rng, tg) if rng.random() < 0.6 else tg.atom() for _ in range(n)]
        if rel == "permute":
            args[0] = gen.small_list(rng, tg)
        add(ctx, [{"id": "C23:lib-%d" % i, "kind": "program", "mode": "query", "qvars": [1, 2, 3],
                   "body": [["call", rel, args]], "take": 10, "budget": 200000, "noref": True, "final_probe": False}])


PROPS.update({
    "C23": {"plan": plan_c23, "reasons": {"panic"},
            "rule": "the seeded random generators of every other check (tree, permutation, search, committed choice, "
                    "isolation, project, for, FD, CLP(Z), compound) and library relations in arbitrary modes, all of which "
                    "produce well-formed programs only; each case runs to exhaustion or its take/budget under catch_unwind "
                    "(a dying process is isolated case by case) and any panic is a rejection.  The TLC-enumerated cases are "
                    "covered for panics by the individual checks.  Non-trivial: every case.",
            "nontrivial": lambda c: True,
            "assumptions": ["well-formedness is established by construction of the generators (operands of the documented "
                            "kinds, a domain for every FD operand, integers far from isize limits)",
                            "overflow checks are ON in the harness build (as in the repository's debug test runs)"]},
})


# ----------------------------------------------------------------------------- surface syntax: C13 C14 C15

def as_case(ctx, c, suffix=""):
    c = dict(c)
    c["id"] = "%s-%s%s" % (ctx["prop"], c["id"], suffix)
    return c


def surface_engine(c):
    """engine records for a surface case (the macro-built goal against Search.tla built from the case AST)"""
    if c.get("backend") == "surface" and "take" not in c and not c.get("lterm"):
        c["engine"] = True
    return c


def plan_c13(ctx):
    rng = ctx["rng"]
    for i in range(T(ctx, 350, 3000)):
        add(ctx, [surface_engine(as_case(ctx, gen.match_program(rng, i)))])
    for i in range(T(ctx, 40, 400)):
        add(ctx, [surface_engine(as_case(ctx, gen.commit_fail_program(rng, i)))])


def plan_c14(ctx):
    rng = ctx["rng"]
    for i in range(T(ctx, 300, 2500)):
        c = gen.grammar_program(rng, i)
        g = "%s-%s" % (ctx["prop"], c["id"])
        a = as_case(ctx, c, "-api")
        s = as_case(ctx, c, "-surf")
        a["group"] = g
        s["group"] = g
        s["backend"] = "surface"
        s["gcheck"] = "same_bag"
        if not c.get("defs") and "take" not in c:
            a["engine"] = True
            s["engine"] = True
        add(ctx, [a, s])
    # committed choice with a literal `true` guard inside a bracketed arm, and `[true]` as the default arm
    for i in range(T(ctx, 40, 400)):
        op = rng.choice(["conda", "condu"])
        g = lambda: rng.choice([["eq", ["var", 1], ["num", rng.randint(1, 2)]], ["neq", ["var", 1], ["num", 1]],
                                ["eq", ["var", 2], ["num", 3]], ["fail"], ["eq", ["num", 1], ["num", 2]]])
        arms = []
        for _ in range(rng.randint(1, 2)):
            arms.append(rng.choice([[["succeed"], g()], [["succeed"], g(), g()], [g(), g()], [g()]]))
        arms.append(rng.choice([[["succeed"]], [["succeed"], g()], [g()]]))
        pre = [["eq", ["var", 1], ["num", rng.randint(1, 2)]]] if rng.random() < 0.6 else []
        c = {"id": "ct%d" % i, "kind": "program", "mode": "query", "qvars": [1, 2], "body": pre + [[op, arms]],
             "after": 1, "budget": 400000, "bracket_literals": True}
        gname = "%s-%s" % (ctx["prop"], c["id"])
        a = as_case(ctx, c, "-api")
        sf = as_case(ctx, c, "-surf")
        a["group"] = gname
        sf["group"] = gname
        sf["backend"] = "surface"
        sf["gcheck"] = "same_bag"
        a["engine"] = True
        sf["engine"] = True
        add(ctx, [a, sf])
    # lterm!: the written term (ground terms and wildcards)
    for i in range(T(ctx, 120, 1000)):
        tg = gen.TermGen(rng, [], compounds=False, syms=True, nums=[0, 1, 2, 7])
        t = tg.term(rng.randint(1, 3))
        add(ctx, [{"id": "C14-lt%d" % i, "backend": "surface", "kind": "program", "mode": "query", "qvars": [1],
                   "body": [["eq", ["var", 1], t]], "lterm": True, "after": 1}])


def plan_c15(ctx):
    rng = ctx["rng"]
    for i in range(T(ctx, 300, 2500)):
        if i % 3 == 2:
            # pattern variables named like variables of the matched term / of the enclosing scope
            a = gen.match_program(rng, i)
            tries = 0
            while not a["names"] and tries < 20:
                a = gen.match_program(rng, i)
                tries += 1
        else:
            mk = gen.shadow_program if i % 3 == 0 else gen.rel_program
            a = mk(rng, i, True)
        b = dict(a, names={})      # the alpha-renamed twin: same AST, globally unique names
        g = "%s-%s" % (ctx["prop"], a["id"])
        a = as_case(ctx, a, "-shadow")
        b = as_case(ctx, b, "-unique")
        a["group"] = g
        b["group"] = g
        b["gcheck"] = "same_bag"
        add(ctx, [surface_engine(a), surface_engine(b)])
    # one goal VALUE entered two times on one path: its variables must be new at every entry
    for i in range(T(ctx, 60, 600)):
        c = gen.twice_program(rng, i)
        g = "%s-%s" % (ctx["prop"], c["id"])
        a = as_case(ctx, c, "-surf")
        b = as_case(ctx, dict(c), "-api")
        b.pop("backend")
        a["group"] = g
        b["group"] = g
        b["gcheck"] = "same_bag"
        add(ctx, [surface_engine(a), b])


SURF_ASSUME = ["generated programs that compile; programs the macro rejects are not part of any property",
               "surface programs are printed by tools/surface.py from the case AST (no negative literals, ground `for` "
               "collections)", "TLC, Json/IOUtils, harness projectors; the pvs crate is rebuilt from /repo's working tree"]
PROPS.update({
    "C13": {"plan": plan_c13, "reasons": R_ANSWERS | R_REIFY | {"panic"},
            "rule": "random match / matche / matcha / matchu expressions: 1-3 arms, 1-2 alternatives per arm over the same "
                    "names, patterns of depth <= 2 (literals, [], [a,b], [h|t], [_|t], repeated names, compounds, wildcards), "
                    "empty bodies, bodies over pattern variables and outer variables, pattern variables carrying the NAME of "
                    "an outer variable; printed as surface syntax, compiled against the working tree, answers compared with "
                    "the specification's elaboration (Kanren.Elab).  Non-trivial: every case (each has a match).",
            "nontrivial": lambda c: True, "assumptions": SURF_ASSUME},
    "C14": {"plan": plan_c14, "reasons": R_ANSWERS | R_REIFY | {"group_bags_differ", "group_outcomes_differ", "panic"},
            "rule": "random programs over the clause grammar (fresh, ==, !=, true/false, nested conjunctions inside operator "
                    "bodies, conde, closure, loop with take, library relation calls, literals of the four kinds, nested "
                    "proper/improper lists, compounds, `_`, 1-3 query variables) run through the macro (surface backend) and "
                    "through the constructor API, compared with the reference per query variable in declaration order and "
                    "with each other; lterm!(t) against the written term.",
            "nontrivial": lambda c: True, "assumptions": SURF_ASSUME},
    "C15": {"plan": plan_c15, "reasons": R_ANSWERS | {"group_bags_differ", "group_outcomes_differ", "panic"},
            "rule": "programs with same-named variables in nested and sibling fresh scopes, and recursive relations (dup, pairs, "
                    "lastof) whose bodies bind fresh and pattern variables named like the caller's variables; each next to its "
                    "alpha-renamed twin with globally unique names (implementation against implementation) and against the "
                    "reference, which allocates new variables at every unfolding.",
            "nontrivial": lambda c: bool(c.get("names")) or "call" in vlib.goal_tags(c), "assumptions": SURF_ASSUME},
})
