#!/usr/bin/env python3
"""Writes /verif/MANIFEST.json from the property table (tools/props.py) and the notes below."""
import json, os, sys
sys.path.insert(0, os.path.dirname(os.path.abspath(__file__)))
from props import PROPS
from manifest_text import TEXT, NOT_APPLICABLE

ROOT = os.path.dirname(os.path.dirname(os.path.abspath(__file__)))
props = [json.loads(l) for l in open(os.path.join(ROOT, "properties.jsonl"))]
checks = []
for p in props:
    pid = p["id"]
    if pid not in PROPS or pid in NOT_APPLICABLE:
        continue
    t = TEXT[pid]
    checks.append({
        "property_id": pid,
        "quick_cmd": "./check %s --tier quick" % pid,
        "thorough_cmd": "./check %s --tier thorough" % pid,
        "evidence_file": "/verif/evidence/%s.json" % pid,
        "replay_cmd_template": "./check %s --replay {path}" % pid,
        "engine": "tlc-spec+pvh",
        "level_claimed": {"category": "model_checking", "text": t["level"], "design_ref": t["ref"]},
        "level_note": t["note"],
        "technique": t["technique"],
    })
man = {
    "version": 1,
    "setup_cmd": "./setup.sh",
    "hooks": {
        "guard": "proto_vulcan_verif",
        "enable": "harness/.cargo/config.toml passes --cfg proto_vulcan_verif (rustflags) to the whole dependency graph, /repo included (path dependency)",
        "baseline_off_cmd": "cd /repo && cargo test --workspace --no-fail-fast --offline",
        "source_commits": ["73f8b0a"],
        "add_only": True,
    },
    "engines": [{"name": "tlc-spec+pvh", "path": "/verif/check",
                 "serves_properties": [c["property_id"] for c in checks],
                 "kind_free_text": "explicit TLA+ specification (spec/*.tla) model-checked by TLC (flow A), Rust harness executing TLC-enumerated and seeded random cases on the real library (flow B), TLC trace validation of the recorded observations against the specification (flow C)"}],
    "checks": checks,
    "not_applicable": [{"property_id": k, "reason": v} for k, v in sorted(NOT_APPLICABLE.items())],
    "notes": "One driver: /verif/check <id> --tier quick|thorough [--replay file]. Exit 0 held / 1 violation (VIOLATION line + replay file under evidence/replay) / 2 tool error. Known findings: /verif/known_findings.json. Design: /verif/DESIGN.md.",
}
json.dump(man, open(os.path.join(ROOT, "MANIFEST.json"), "w"), indent=1)
print("MANIFEST.json:", len(checks), "checks,", len(man["not_applicable"]), "not applicable")
