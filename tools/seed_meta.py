#!/usr/bin/env python3
"""Writes seeded/<name>/meta.json from the table below plus the recorded runs."""
import json, os
ROOT = os.path.dirname(os.path.dirname(os.path.abspath(__file__)))
TABLE = {
 "C02-1": {"breaks": "C02", "file": "src/relation/diseq.rs",
           "what": "DisequalityConstraint::run unifies each binding of a stored disequality against a fresh clone of the state instead of cumulatively",
           "needs": "a disequality with two bindings sharing a variable ([x,z] != [y,y]) posted BEFORE later equalities that make the bindings jointly impossible while the shared variable is still unbound"},
 "C05-1": {"breaks": "C05", "file": "src/stream.rs",
           "what": "Stream::mplus_dfs rotates a Cons whose tail is an MPlusDFS and swaps the operands",
           "needs": "an answer produced while three DFS choice points are stacked in left position (three-goal conjunction of member, or triple-nested cond in first-clause position)"},
 "C06-1": {"breaks": "C06", "file": "src/stream.rs",
           "what": "Stream::mplus drops the tail of a Cons when that tail is a Delay (without checking that the delayed stream is empty)",
           "needs": "a conde with a clause made only of `true` followed by another clause that can succeed, evaluated where its stream is the left operand of mplus (nested in a disjunction, or >= 3 clauses with trailing true clauses)"},
 "C07-1": {"breaks": "C07", "file": "src/stream.rs",
           "what": "Stream::mplus does not swap when the stepped stream is a depth-first node (BindDFS/MPlusDFS/PauseDFS)",
           "needs": "a dfs { } block that runs forever without answers as a DIRECT disjunct of an interleaving disjunction, with a sibling answer not yet emitted"},
 "C08-1": {"breaks": "C08", "file": "src/solver.rs",
           "what": "Solver::trunc returns early on a mature stream without cutting the tail of a Cons",
           "needs": "a condu/matchu head goal whose stream is already a mature Cons before any step: a conda with a multi-answer head-only clause used directly as a condu head"},
 "C10-1": {"breaks": "C10", "file": "src/relation/clpfd/distinctfd.rs",
           "what": "DistinctFd2Constraint::run updates the shared constraint object in place (skips Rc::make_mut) on its 'last pass'",
           "needs": "distinctfd posted before a disjunction, one branch resolving all remaining variables in one unification, a later sibling relying on the same constraint object to reject a duplicate"},
 "C01-1": {"breaks": "C01", "file": "src/state/substitution.rs",
           "what": "SMap::occurs_check compares a syntactic variable tail of a cons cell directly with x instead of walking it",
           "needs": "unify an unbound x with an improper list whose tail variable t is different from x but already bound to a term containing x (t == [x], x == [1 | t])"},
 "C03-1": {"breaks": "C03", "file": "src/state/substitution.rs",
           "what": "SMap::is_closed uses || instead of && for list cells, so every proper list counts as closed",
           "needs": "a pending disequality whose key is reachable from a query variable and whose right-hand side is a list containing a fresh variable that is not part of the answer"},
 "C09-1": {"breaks": "C09", "file": "src/state/mod.rs",
           "what": "State::run_constraints returns early when a snapshotted constraint is no longer in the store",
           "needs": ">= 3 stored disequalities, one unification that makes constraint A subsume stored constraint B (B leaves the store mid-pass) and violates a third constraint C, and the hash order A, B, C (1 of 6)"},
 "C12-1": {"breaks": "C12", "file": "src/operator/everyg.rs",
           "what": "Everyg::solve dedups adjacent equal elements of the collection before building the conjunction",
           "needs": "adjacent equal elements in the collection and a body with more than one answer (or non-ground elements)"},
 "C22-1": {"breaks": "C22", "file": "src/state/constraint/store.rs",
           "what": "push_and_normalize no longer reports a redundant new constraint as dropped (no take_constraint for it)",
           "needs": "the weaker (subsumed) disequality arrives while the stronger one is stored, directly or after a later unification re-normalises it"},
 "C04-1": {"breaks": "C04", "file": "src/state/mod.rs",
           "what": "State::update_var_domain skips the intersection when the new domain's min/max span the stored domain",
           "needs": "a variable that already has a non-singleton domain receives a second, non-contiguous domain (sparse, with a hole at a value of the first) whose bounds cover the first; the result then depends on which domain is posted first"},
 "C16-1": {"breaks": "C16", "file": "src/relation/clpfd/plusfd.rs",
           "what": "plusfd re-propagates only when narrowing bound w (not u or v)",
           "needs": "w already a number, u and v domain variables with holes that both collapse to singletons in one pass (v from u's stale range), and no later unification or labelling in that branch"},
 "C17-1": {"breaks": "C17", "file": "src/relation/clpfd/minusfd.rs",
           "what": "minusfd bounds w above by umax + vmin instead of umax - vmin",
           "needs": "a subtrahend whose domain contains negative numbers and a solution with w > umax + vmin"},
 "C18-1": {"breaks": "C18", "file": "src/state/fd.rs",
           "what": "is_disjoint shortcut for interval-vs-sparse pairs with an off-by-one (>= instead of >)",
           "needs": "one interval and one sparse domain with overlapping bounds whose only common value is the interval's end while the interval's start is not in the sparse domain"},
 "C19-1": {"breaks": "C19", "file": "src/relation/clpz/plusz.rs",
           "what": "plusz binds its own operand self.w instead of the walked variable when u and v are ground",
           "needs": "w previously unified with another unbound variable in the direction w == x, plusz solved in forward mode, result observed through x"},
 "C20-1": {"breaks": "C20", "file": "src/state/substitution.rs",
           "what": "occurs_check_compound only looks into compound fields that are syntactically variables",
           "needs": "a variable unified with a compound that contains it at depth >= 2 below a non-variable field (x == Pair(1, Pair(2, x)))"},
 "C11-1": {"breaks": "C11", "file": "src/operator/project.rs",
           "what": "Project::solve resolves the projected variables with walk instead of walk_star",
           "needs": "the projected variable is bound to a list/compound whose inner variables are bound separately, and the body inspects the value non-relationally"},
 "C21-1": {"breaks": "C21", "file": "src/lterm.rs",
           "what": "PartialEq for Cons/Cons compares the iterated element sequences instead of recursing structurally",
           "needs": "== between a proper and an improper list whose element sequences coincide ([1, 2 | 3] vs [1, 2, 3]), possibly nested or through contains"},
 "C24-1": {"breaks": "C24", "file": "src/relation/distinct.rs",
           "what": "distinct recurses on `rest` instead of [second | rest]",
           "needs": "a list of >= 3 elements whose only equal pair is the second element and a later one ([1,2,2])"},
}
for name, t in TABLE.items():
    d = os.path.join(ROOT, "seeded", name)
    if not os.path.isdir(d):
        continue
    runs = open(os.path.join(d, "runs.txt")).read().splitlines() if os.path.exists(os.path.join(d, "runs.txt")) else []
    detected = sorted(f[len("detected_by_"):-5] for f in os.listdir(d) if f.startswith("detected_by_"))
    meta = dict(t)
    meta.update({
        "confirmed": "tools/seed_verify.sh in a scratch worktree: crate compiles, 185 unit + 22 doc tests pass with the change, mutant_demo.rs fails with it and passes without it",
        "applied_with": "tools/seed_run.sh: git -C /repo apply patch.diff; ./check <id> --tier quick; git -C /repo checkout -- .",
        "detected_by": detected,
        "runs": runs,
    })
    json.dump(meta, open(os.path.join(d, "meta.json"), "w"), indent=1)
    print(name, "detected by", detected)
