#!/bin/sh
# alt_seed_sweep.sh <seed> [props...]: every quick check once with another VERIF_SEED (different random cases);
# the evidence files of the committed seed are kept aside and restored. Summary in work/alt_seed_<seed>.log
seed=$1; shift
props=${@:-C01 C02 C03 C04 C05 C06 C07 C08 C09 C10 C11 C12 C13 C14 C15 C16 C17 C18 C19 C20 C21 C22 C23 C24}
cd /verif
: > work/alt_seed_$seed.log
for p in $props; do
  cp evidence/$p.json /tmp/evidence_keep_$p.json 2>/dev/null
  VERIF_SEED=$seed ./check $p --tier quick > work/alt_$p.out 2>&1; rc=$?
  echo "$p seed=$seed exit=$rc $(grep -c '^VIOLATION' work/alt_$p.out) violations | $(tail -1 work/alt_$p.out)" >> work/alt_seed_$seed.log
  grep '^VIOLATION' work/alt_$p.out | head -3 >> work/alt_seed_$seed.log
  if [ $rc -ne 0 ]; then mkdir -p work/alt_fail_$seed; cp evidence/replay/$p-*.json work/alt_fail_$seed/ 2>/dev/null; cp work/last_$p.json work/alt_fail_$seed/last_$p.json; fi
  rm -f evidence/replay/$p-*.json
  [ -f /tmp/evidence_keep_$p.json ] && mv /tmp/evidence_keep_$p.json evidence/$p.json
done
echo DONE >> work/alt_seed_$seed.log
