"""The repository's own example programs (/repo/examples) as case ASTs: hand translations that keep the goal
structure (recursion over a known n is unrolled).  They are judged like every other case."""


def V(i):
    return ["var", i]


def simple():
    # examples/simple.rs
    return {"qvars": [1], "body": [["conde", [[["eq", V(1), ["num", 1]]], [["eq", V(1), ["num", 2]]], [["eq", V(1), ["num", 3]]]]]]}


def diseq():
    # examples/diseq.rs
    return {"qvars": [1, 2], "body": [["neq", ["list", [V(1), ["num", 1]]], ["list", [["num", 2], V(2)]]]]}


def nqueens(n):
    """examples/n-queens.rs for a fixed n: domains for the queens (nqueenso), distinctfd over the list, then for every
    pair i < j the diago goal with its two auxiliary variables, finally queens == l."""
    qs = list(range(10, 10 + n))          # queen variables; the list l is built by consing: last declared first
    body = [["dom", V(x), ["itv", 1, n]] for x in qs]
    l = ["list", [V(x) for x in reversed(qs)]]
    body.append(["distinctfd", l])
    aux = 100
    order = list(reversed(qs))
    fresh_body = []
    for i in range(n):
        for j in range(i + 1, n):
            d = j - i
            a, b = aux, aux + 1
            aux += 2
            qi, qj = order[i], order[j]
            fresh_body.append(["fresh", [a, b], [
                ["dom", ["list", [V(a), V(b)]], ["itv", 0, 2 * n]],
                ["plusfd", V(qi), ["num", d], V(a)],
                ["neqfd", V(a), V(qj)],
                ["plusfd", V(qj), ["num", d], V(b)],
                ["neqfd", V(b), V(qi)]]])
    body += fresh_body
    body.append(["eq", V(1), l])
    return {"qvars": [1], "body": [["fresh", qs, body]]}


def tree_nodes():
    """examples/tree-nodes.rs, untyped form: tree_nodes(node, d, (list, rest)) with the pair flattened."""
    def node(name, left, right):
        return ["list", [["sym", "s:" + name], left, right]]
    nil = ["list", []]
    tree = node("a", node("b", nil, node("c", nil, nil)), node("d", nil, nil))
    # `match node { [] => .., [name, left, right] => .. }` written out as the disjunction it stands for
    defs = {"tree_nodes": {"params": [1, 2, 3, 4], "locals": [11, 12, 13, 14, 15, 16, 17],
                           "body": [["conde", [
                               [["eq", V(1), ["list", []]], ["eq", V(3), V(4)]],
                               [["fresh", [11, 12, 13], [
                                   ["eq", V(1), ["list", [V(11), V(12), V(13)]]],
                                   ["fresh", [14, 15, 16, 17], [
                                       ["eq", ["cons", V(17), V(14)], V(2)],
                                       ["call", "tree_nodes", [V(12), V(14), V(3), V(15)]],
                                       ["eq", V(15), ["cons", V(11), V(16)]],
                                       ["call", "tree_nodes", [V(13), V(14), V(16), V(4)]]]]]]]]]]}}
    return {"qvars": [1], "body": [["call", "tree_nodes", [tree, V(1), V(1), nil]]], "defs": defs, "take": 1}


def all_examples(prop, names=None, thorough=False):
    table = [("simple", simple()), ("diseq", diseq()), ("nqueens4", nqueens(4)), ("nqueens5", nqueens(5)),
             ("tree_nodes", tree_nodes())]
    if thorough:
        table.append(("nqueens6", nqueens(6)))
    out = []
    for name, c in table:
        if names is not None and not any(name.startswith(n) for n in names):
            continue
        c = dict(c)
        c.update({"id": "%s-example-%s" % (prop, name), "kind": "program", "mode": "query", "budget": 40000000, "after": 1})
        out.append(c)
    return out
