#!/bin/sh
# Offline setup: build the harness against /repo and parse every specification module.
set -e
cd "$(dirname "$0")"
mkdir -p work evidence/replay
(cd harness && CARGO_NET_OFFLINE=true cargo build --release --offline)
[ -f surface/src/generated.rs ] || printf 'use crate::CaseFn;\npub fn cases() -> Vec<CaseFn> {\n    vec![]\n}\n' > surface/src/generated.rs
(cd surface && CARGO_NET_OFFLINE=true cargo build --offline)
cd spec
for m in Terms Store Kanren Search Ref FDom StoreMC MC_Tree MC_Unify MC_FD MC_Z MC_FDom Lib MC_Lib LTermOps MC_LTerm SearchMC MC_Search LiveMC MC_Live Judge; do
  tla-sany $m.tla > ../work/sany_$m.txt 2>&1 || { cat ../work/sany_$m.txt; exit 1; }
done
echo setup ok
